package bounds

import (
	"fmt"
	"go/constant"
	"go/token"
	"go/types"
	"math/big"
	"os"
	"sort"
	"strings"

	"golang.org/x/tools/go/ssa"

	"verif/internal/core"
	"verif/internal/ir"
)

// Kind of abstract value.
type Kind int

const (
	KUnknown Kind = iota
	KInt
	KSlice
	KAddr // address of a location: object id + field path
	KTuple
	KIface
)

// AVal is an abstract value.
type AVal struct {
	Kind  Kind
	Int   Lin
	Len   Lin
	Obj   string
	Path  string
	Tuple []AVal
	Rec   *callRec // results of a call with several returns
	Idx   int
	IsNil int // interface / pointer / error values: 1 nil, -1 non-nil, 0 unknown
	Dyn   *AVal
	Own   string // KAddr of a field: "pkg.Type" of the struct the field belongs to
}

// State is the abstract state at a program point.
type State struct {
	Facts []Ineq
	Heap  map[string]AVal
	Nil   map[ssa.Value]int
	Dead  bool
}

func (s *State) clone() *State {
	c := &State{Facts: s.Facts[:len(s.Facts):len(s.Facts)], Heap: map[string]AVal{}, Nil: map[ssa.Value]int{}, Dead: s.Dead}
	for k, v := range s.Heap {
		c.Heap[k] = v
	}
	for k, v := range s.Nil {
		c.Nil[k] = v
	}
	return c
}

func (s *State) add(is ...Ineq) { s.Facts = append(s.Facts, is...) }

type retInfo struct {
	Ret     *ssa.Return
	State   *State
	Results []AVal
}

type callRec struct {
	Rets    []retInfo
	Results []AVal // what the caller sees
	NFacts  int    // number of caller facts at the call (prefix)
}

// Obl is one bounds obligation, merged over all analysed contexts.
type Obl struct {
	Key      string
	Instr    ssa.Instruction
	Desc     string
	Proven   bool
	Contexts int
	Failed   []string // contexts in which it could not be proven, with the goal
}

// Analyzer runs the abstract interpretation.
type Analyzer struct {
	P        *core.Program
	IntBits  int
	MaxDepth int
	Obls     map[string]*Obl
	Order    []string
	nsym     int
	ordinals map[*ssa.Function]map[ssa.Instruction]int
	// MakeSizes: sizes of make() calls, for the bounded-allocation rule
	Allocs []AllocSite
	// Returns and arguments of the entry function in the last Run
	EntryRets []retInfo
	EntryArgs []AVal
	// LoopPhis: for the loops of the entry function, each header phi with its symbolic header
	// value and the values flowing in over the back edges (all in terms of the header symbols)
	LoopPhis []LoopPhi
	Trace    bool
	// Invariant supplies the value of a field that an object invariant determines (write-once fields
	// established by the constructor): owner is "pkg.Type", obj the abstract object. It may add facts to st.
	Invariant func(a *Analyzer, st *State, owner, field, obj string) (AVal, bool)
	// EntryAssume may add facts about the arguments of an entry function (documented preconditions).
	EntryAssume func(a *Analyzer, st *State, fn *ssa.Function, args []AVal)
	// JoinFacts: at a join of two to four edges keep the branch facts (or their relaxation by one) that hold on every
	// incoming edge - `x > y` on one edge and `x == y` on the other give `x >= y` behind the join. Costs solver
	// calls at every join: switched on for the ring analysis only.
	JoinFacts bool
	// Probe, when set, is called in recording runs before every instruction (Instr != nil) and on every
	// control-flow edge (From/To set, St refined by the branch condition) of every analysed frame.
	Probe func(p *Probe)
}

// Probe is a program point handed to Analyzer.Probe: the state there and the chain of frames (innermost first).
type Probe struct {
	Instr    ssa.Instruction
	Post     bool // the probe follows the instruction (its value is available), otherwise it precedes it
	From, To *ssa.BasicBlock
	St       *State
	Ctx      string
	frames   []*inst
}

// Depth is the inlining depth of the innermost frame (0 = the entry function).
func (p *Probe) Depth() int { return len(p.frames) - 1 }

// Frames is the number of frames on the abstract call stack.
func (p *Probe) Frames() int { return len(p.frames) }

// Fn returns the function of frame i (0 = innermost).
func (p *Probe) Fn(i int) *ssa.Function { return p.frames[i].fn }

// Val returns the abstract value of v in frame i when it was evaluated in the current pass (constants always).
func (p *Probe) Val(i int, v ssa.Value) (AVal, bool) {
	in := p.frames[i]
	if x, ok := in.env[v]; ok {
		return x, true
	}
	if _, ok := v.(*ssa.Const); ok {
		return in.val(p.St, v), true
	}
	return AVal{}, false
}

// Proves reports whether the facts at the probe imply the goals.
func (p *Probe) Proves(goals ...Ineq) bool {
	for _, g := range goals {
		if !Proves(p.St.Facts, g) {
			return false
		}
	}
	return true
}

func (in *inst) chain() []*inst {
	var out []*inst
	for x := in; x != nil; x = x.parent {
		out = append(out, x)
	}
	return out
}

// Add appends facts to a state (for Invariant callbacks).
func (s *State) Add(is ...Ineq) { s.add(is...) }

// AllocSite is a make([]T, n) encountered.
type AllocSite struct {
	Instr   ssa.Instruction
	Size    Lin
	Facts   []Ineq
	Context string
}

// NewAnalyzer creates an analyzer.
func NewAnalyzer(p *core.Program) *Analyzer {
	bits := 64
	if p.GOARCH == "386" || p.GOARCH == "arm" {
		bits = 32
	}
	return &Analyzer{P: p, IntBits: bits, MaxDepth: 5, Obls: map[string]*Obl{}, ordinals: map[*ssa.Function]map[ssa.Instruction]int{}}
}

func (a *Analyzer) fresh(prefix string) string {
	a.nsym++
	return fmt.Sprintf("%s#%d", prefix, a.nsym)
}

func pow2(n int) *big.Int { return new(big.Int).Lsh(big.NewInt(1), uint(n)) }

// typeRange returns [min,max] of an integer type.
func (a *Analyzer) typeRange(t types.Type) (min, max *big.Int, ok bool) {
	b, isB := t.Underlying().(*types.Basic)
	if !isB || b.Info()&types.IsInteger == 0 {
		return nil, nil, false
	}
	bits := 0
	signed := b.Info()&types.IsUnsigned == 0
	switch b.Kind() {
	case types.Int8, types.Uint8:
		bits = 8
	case types.Int16, types.Uint16:
		bits = 16
	case types.Int32, types.Uint32:
		bits = 32
	case types.Int64, types.Uint64:
		bits = 64
	case types.Int, types.Uint, types.Uintptr:
		bits = a.IntBits
	default:
		return nil, nil, false
	}
	if signed {
		max = new(big.Int).Sub(pow2(bits-1), big.NewInt(1))
		min = new(big.Int).Neg(pow2(bits - 1))
	} else {
		min = big.NewInt(0)
		max = new(big.Int).Sub(pow2(bits), big.NewInt(1))
	}
	return min, max, true
}

func (a *Analyzer) freshInt(st *State, t types.Type, prefix string) AVal {
	s := Sym(a.fresh(prefix))
	if min, max, ok := a.typeRange(t); ok {
		st.add(GE(s, ConstBig(min)), LE(s, ConstBig(max)))
	}
	return AVal{Kind: KInt, Int: s}
}

func (a *Analyzer) freshSlice(st *State, prefix string) AVal {
	l := Sym(a.fresh("len:" + prefix))
	st.add(GE(l, Const(0)))
	return AVal{Kind: KSlice, Len: l}
}

func (a *Analyzer) freshOf(st *State, t types.Type, prefix string) AVal {
	switch u := t.Underlying().(type) {
	case *types.Basic:
		if u.Info()&types.IsInteger != 0 {
			return a.freshInt(st, t, prefix)
		}
		if u.Info()&types.IsString != 0 {
			return a.freshSlice(st, prefix)
		}
	case *types.Slice:
		return a.freshSlice(st, prefix)
	case *types.Pointer:
		return AVal{Kind: KAddr, Obj: a.fresh("obj:" + prefix)}
	case *types.Tuple:
		var ts []AVal
		for i := 0; i < u.Len(); i++ {
			ts = append(ts, a.freshOf(st, u.At(i).Type(), fmt.Sprintf("%s.%d", prefix, i)))
		}
		return AVal{Kind: KTuple, Tuple: ts}
	case *types.Interface:
		return AVal{Kind: KIface}
	}
	return AVal{Kind: KUnknown}
}

// inst is one function instance being analysed.
type inst struct {
	a         *Analyzer
	fn        *ssa.Function
	env       map[ssa.Value]AVal
	depth     int
	ctx       string
	record    bool
	inv       map[*ssa.Phi][]string // surviving invariant templates per loop phi
	rets      []retInfo
	out       map[*ssa.BasicBlock]*State
	params    map[string]Lin // lengths of slice parameters (for templates)
	loops     []*ir.Loop
	failedInv bool
	// edge: value of another header phi on the edge currently examined (relational templates)
	edge   func(o *ssa.Phi) (AVal, bool)
	parent *inst
	locSl  []string
	// entryVal: header symbol of an integer loop phi -> the value it has on the loop's only entry edge
	entryVal map[string]Lin
}

// Run analyses fn as an entry point: parameters are unknown (slices have a
// symbolic non-negative length, pointers point to unknown objects).
func (a *Analyzer) Run(fn *ssa.Function) {
	st := &State{Heap: map[string]AVal{}, Nil: map[ssa.Value]int{}}
	var args []AVal
	for _, p := range fn.Params {
		args = append(args, a.freshOf(st, p.Type(), p.Name()))
	}
	a.EntryArgs = args
	if a.EntryAssume != nil {
		a.EntryAssume(a, st, fn, args)
	}
	a.EntryRets = a.call(fn, args, st, 0, core.FuncName(fn), true, nil)
}

// call analyses an instance of fn and returns its returns.
func (a *Analyzer) call(fn *ssa.Function, args []AVal, st *State, depth int, ctx string, record bool, parent *inst) []retInfo {
	in := &inst{a: a, fn: fn, depth: depth, ctx: ctx, inv: nil, params: map[string]Lin{}, parent: parent}
	in.loops = ir.Loops(fn)
	// Houdini over loop invariants: dry runs until stable, then a recording run
	for round := 0; round < 6; round++ {
		in.record = false
		in.failedInv = false
		in.runOnce(args, st)
		if !in.failedInv {
			break
		}
	}
	if os.Getenv("BOUNDS_DEBUG") != "" && strings.Contains(ctx, os.Getenv("BOUNDS_DEBUG")) {
		for ph, ts := range in.inv {
			fmt.Fprintf(os.Stderr, "BOUNDS inv %s %s(%s): %v\n", ctx, ph.Name(), ph.Comment, ts)
		}
	}
	in.record = record
	in.runOnce(args, st)
	return in.rets
}

func (in *inst) runOnce(args []AVal, st0 *State) {
	fn := in.fn
	in.env = map[ssa.Value]AVal{}
	in.entryVal = map[string]Lin{}
	in.rets = nil
	in.out = map[*ssa.BasicBlock]*State{}
	for i, p := range fn.Params {
		if i < len(args) {
			in.env[p] = args[i]
			if args[i].Kind == KSlice {
				in.params[p.Name()] = args[i].Len
			}
		}
	}
	if in.inv == nil {
		in.inv = map[*ssa.Phi][]string{}
		for _, l := range in.loops {
			for _, ins := range l.Header.Instrs {
				if ph, ok := ins.(*ssa.Phi); ok {
					in.inv[ph] = in.templates()
					// relational: an integer that counts the elements of a slice grown in the same loop
					if _, isInt := ph.Type().Underlying().(*types.Basic); isInt {
						for _, other := range l.Header.Instrs {
							if o, ok := other.(*ssa.Phi); ok && o != ph {
								if _, isSl := o.Type().Underlying().(*types.Slice); isSl {
									in.inv[ph] = append(in.inv[ph], "eqlen:"+o.Name())
								}
							}
						}
					}
				}
			}
		}
	}
	order := rpo(fn)
	isHeader := map[*ssa.BasicBlock]*ir.Loop{}
	for _, l := range in.loops {
		if old, ok := isHeader[l.Header]; !ok || len(l.Blocks) > len(old.Blocks) {
			isHeader[l.Header] = l
		}
	}
	for _, b := range order {
		var st *State
		if b == fn.Blocks[0] {
			st = st0.clone()
		} else {
			var preds []*State
			var predBlocks []*ssa.BasicBlock
			for _, p := range b.Preds {
				ps, ok := in.out[p]
				if !ok {
					continue // back edge (not yet analysed) or unreachable
				}
				e := in.refine(ps, p, b)
				if e.Dead {
					continue
				}
				if in.record && in.a.Probe != nil {
					in.a.Probe(&Probe{From: p, To: b, St: e, Ctx: in.ctx, frames: in.chain()})
				}
				preds = append(preds, e)
				predBlocks = append(predBlocks, p)
			}
			if len(preds) == 0 {
				continue // unreachable
			}
			l := isHeader[b]
			if len(preds) == 1 && l == nil {
				st = preds[0]
			} else {
				st = in.merge(b, preds, predBlocks, l)
			}
		}
		in.block(b, st)
		in.out[b] = st
	}
	if in.record && in.depth == 0 {
		in.a.LoopPhis = nil
	}
	// check loop invariants on back edges
	for _, l := range in.loops {
		for _, ins := range l.Header.Instrs {
			ph, ok := ins.(*ssa.Phi)
			if !ok {
				continue
			}
			hv, okh := in.env[ph]
			if !okh {
				continue
			}
			for i, p := range l.Header.Preds {
				if !l.Blocks[p] {
					continue
				}
				ps, ok := in.out[p]
				if !ok {
					continue
				}
				es := in.refine(ps, p, l.Header)
				if es.Dead {
					continue
				}
				inc := in.val(es, ph.Edges[i])
				if in.record && in.depth == 0 {
					found := false
					for k := range in.a.LoopPhis {
						if in.a.LoopPhis[k].Phi == ph {
							in.a.LoopPhis[k].BackEdge = append(in.a.LoopPhis[k].BackEdge, inc)
							found = true
						}
					}
					if !found {
						in.a.LoopPhis = append(in.a.LoopPhis, LoopPhi{Phi: ph, Header: hv, BackEdge: []AVal{inc}})
					}
				}
				ei := i
				in.edge = func(o *ssa.Phi) (AVal, bool) {
					if ei < len(o.Edges) {
						return in.val(es, o.Edges[ei]), true
					}
					return AVal{}, false
				}
				var keep []string
				for _, t := range in.inv[ph] {
					if in.templateHolds(es, t, hv, inc, true) {
						keep = append(keep, t)
					} else {
						in.failedInv = true
					}
				}
				in.inv[ph] = keep
			}
		}
	}
}

func rpo(fn *ssa.Function) []*ssa.BasicBlock {
	seen := map[*ssa.BasicBlock]bool{}
	var post []*ssa.BasicBlock
	var dfs func(b *ssa.BasicBlock)
	dfs = func(b *ssa.BasicBlock) {
		seen[b] = true
		for _, s := range b.Succs {
			if !seen[s] {
				dfs(s)
			}
		}
		post = append(post, b)
	}
	dfs(fn.Blocks[0])
	for i, j := 0, len(post)-1; i < j; i, j = i+1, j-1 {
		post[i], post[j] = post[j], post[i]
	}
	return post
}

// templates: candidate facts about a merged / loop-carried integer v.
func (in *inst) templates() []string {
	// "gem1": the index of a range loop starts at -1 and is incremented before it is used
	// "leEntry"/"geEntry": a loop-carried value that never exceeds / never falls below the value it enters the loop with
	ts := []string{"ge1", "ge0", "gem1", "leEntry", "geEntry"}
	var ps []string
	for p := range in.params {
		ps = append(ps, p)
	}
	sort.Strings(ps)
	for _, p := range ps {
		ts = append(ts, "le:"+p)
	}
	// slices made outside every loop (`src = src[:hn+remlen]` in front of a decode loop): a cursor may be
	// bounded by their length just as by a parameter's
	for _, n := range in.localSlices() {
		if _, dup := in.params[n]; !dup {
			ts = append(ts, "le:"+n)
		}
	}
	return ts
}

// localSlices: names ("loc:<ssa name>") of the slice expressions of the function that lie outside every loop.
func (in *inst) localSlices() []string {
	if in.locSl != nil {
		return in.locSl
	}
	in.locSl = []string{}
	for _, b := range in.fn.Blocks {
		inLoop := false
		for _, l := range in.loops {
			if l.Blocks[b] {
				inLoop = true
			}
		}
		if inLoop {
			continue
		}
		for _, ins := range b.Instrs {
			if x, ok := ins.(*ssa.Slice); ok {
				if _, isSl := x.Type().Underlying().(*types.Slice); isSl && len(in.locSl) < 6 {
					in.locSl = append(in.locSl, "loc:"+x.Name())
				}
			}
		}
	}
	return in.locSl
}

// templateHolds: does template t hold for value inc in state st? (hv is the header symbol, unused for now)
func (in *inst) templateHolds(st *State, t string, hv, inc AVal, _ bool) bool {
	switch inc.Kind {
	case KInt:
		switch {
		case t == "ge0":
			return Proves(st.Facts, GE(inc.Int, Const(0)))
		case t == "gem1":
			return Proves(st.Facts, GE(inc.Int, Const(-1)))
		case t == "ge1":
			return Proves(st.Facts, GE(inc.Int, Const(1)))
		case t == "leEntry" || t == "geEntry":
			if hv.Kind != KInt || hv.Int.K == nil {
				return false
			}
			e, ok := in.entryVal[hv.Int.String()]
			if !ok {
				return false
			}
			if t == "leEntry" {
				return Proves(st.Facts, LE(inc.Int, e))
			}
			return Proves(st.Facts, GE(inc.Int, e))
		case strings.HasPrefix(t, "le:"):
			if pl, ok := in.params[t[3:]]; ok {
				return Proves(st.Facts, LE(inc.Int, pl))
			}
		case strings.HasPrefix(t, "eqlen:"):
			if o := in.phiNamed(t[6:]); o != nil && in.edge != nil {
				if ov, ok := in.edge(o); ok && ov.Kind == KSlice {
					return Proves(st.Facts, GE(inc.Int, ov.Len)) && Proves(st.Facts, LE(inc.Int, ov.Len))
				}
			}
			return false
		}
	case KSlice:
		switch {
		case t == "ge0", t == "gem1":
			return true
		case t == "ge1":
			return Proves(st.Facts, GE(inc.Len, Const(1)))
		case strings.HasPrefix(t, "le:"):
			if pl, ok := in.params[t[3:]]; ok {
				return Proves(st.Facts, LE(inc.Len, pl))
			}
		}
	}
	return false
}

func (in *inst) assumeTemplate(st *State, t string, v AVal) {
	var x Lin
	switch v.Kind {
	case KInt:
		x = v.Int
	case KSlice:
		x = v.Len
	default:
		return
	}
	switch {
	case t == "ge0":
		st.add(GE(x, Const(0)))
	case t == "gem1":
		st.add(GE(x, Const(-1)))
	case t == "ge1":
		st.add(GE(x, Const(1)))
	case t == "leEntry" || t == "geEntry":
		if e, ok := in.entryVal[x.String()]; ok && v.Kind == KInt {
			if t == "leEntry" {
				st.add(LE(x, e))
			} else {
				st.add(GE(x, e))
			}
		}
	case strings.HasPrefix(t, "le:"):
		if pl, ok := in.params[t[3:]]; ok {
			st.add(LE(x, pl))
		}
	case strings.HasPrefix(t, "eqlen:"):
		if o := in.phiNamed(t[6:]); o != nil && v.Kind == KInt {
			if ov, ok := in.env[o]; ok && ov.Kind == KSlice {
				st.add(EQ(x, ov.Len)...)
			}
		}
	}
}

// phiNamed finds a phi of the analysed function by its SSA name.
func (in *inst) phiNamed(name string) *ssa.Phi {
	for _, b := range in.fn.Blocks {
		for _, ins := range b.Instrs {
			ph, ok := ins.(*ssa.Phi)
			if !ok {
				break
			}
			if ph.Name() == name {
				return ph
			}
		}
	}
	return nil
}

// merge joins predecessor states at block b (l != nil: b is a loop header).
func (in *inst) merge(b *ssa.BasicBlock, preds []*State, predBlocks []*ssa.BasicBlock, l *ir.Loop) *State {
	// facts: those of the immediate dominator persist (all facts are about immutable symbols)
	st := &State{Heap: map[string]AVal{}, Nil: map[ssa.Value]int{}}
	if id := b.Idom(); id != nil {
		if ds, ok := in.out[id]; ok {
			st.Facts = ds.Facts[:len(ds.Facts):len(ds.Facts)]
			for k, v := range ds.Nil {
				st.Nil[k] = v
			}
		}
	}
	if in.a.JoinFacts && len(preds) >= 2 && len(preds) <= 4 {
		base := len(st.Facts)
		var cands []Ineq
		seen := map[string]bool{}
		for _, p := range preds {
			if len(p.Facts) < base || len(p.Facts)-base > 12 {
				continue
			}
			for _, f := range p.Facts[base:] {
				for _, c := range []Ineq{f, {f.L.AddK(1)}} {
					if k := c.String(); !seen[k] && len(cands) < 48 {
						seen[k] = true
						cands = append(cands, c)
					}
				}
			}
		}
		// a symbol bounded from above by a ghost symbol (`s <= ghost:...`, a fact the client added about a quantity that
		// only grows) may be replaced by the ghost where it stands as an upper bound: `next <= s` gives `next <= ghost`.
		// Two branches that each compared with their own read of that quantity then agree on one fact.
		for _, p := range preds {
			if len(p.Facts) < base {
				continue
			}
			for _, gf := range p.Facts {
				var ghost, sym string
				if len(gf.L.T) != 2 || gf.L.K.Sign() != 0 {
					continue
				}
				for name, co := range gf.L.T {
					if strings.HasPrefix(name, "ghost:") && co.Cmp(rat(1)) == 0 {
						ghost = name
					} else if co.Cmp(rat(-1)) == 0 {
						sym = name
					}
				}
				if ghost == "" || sym == "" {
					continue
				}
				for _, f := range p.Facts[base:] {
					co, has := f.L.T[sym]
					if !has || co.Cmp(rat(1)) != 0 {
						continue
					}
					c := Ineq{f.L.Add(Sym(ghost)).Add(Sym(sym).Scale(rat(-1)))}
					if k := c.String(); !seen[k] && len(cands) < 64 {
						seen[k] = true
						cands = append(cands, c)
					}
				}
			}
		}
		for _, c := range cands {
			all := true
			for _, p := range preds {
				if !Proves(p.Facts, c) {
					all = false
					break
				}
			}
			if all {
				st.Facts = append(st.Facts, c)
			}
		}
	}
	if l != nil {
		// loop header: the heap is unknown inside the loop when the body stores to it or calls out;
		// a loop that only reads (a scan over a slice) keeps what was known before it
		st.Heap = map[string]AVal{}
		if !loopWritesHeap(l) {
			for i, p := range predBlocks {
				if l.Blocks[p] {
					continue
				}
				for k, v := range preds[i].Heap {
					st.Heap[k] = v
				}
				break
			}
			// several entry edges: keep only what they agree on
			for i, p := range predBlocks {
				if l.Blocks[p] {
					continue
				}
				for k, v := range st.Heap {
					if w, ok := preds[i].Heap[k]; !ok || !sameAVal(v, w) {
						delete(st.Heap, k)
					}
				}
			}
		}
	} else {
		// heap join: keep locations on which all predecessors agree; otherwise fresh with templates
		for k, v := range preds[0].Heap {
			same := true
			for _, p := range preds[1:] {
				w, ok := p.Heap[k]
				if !ok || !sameAVal(v, w) {
					same = false
				}
			}
			if same {
				st.Heap[k] = v
				continue
			}
			// template: slice of equal constant length on all sides (provable in each predecessor)
			if v.Kind == KSlice {
				var kk *big.Rat
				for _, p := range preds {
					if w, ok := p.Heap[k]; ok && w.Kind == KSlice && w.Len.IsConst() {
						kk = w.Len.K
					}
				}
				all := kk != nil
				for _, p := range preds {
					w, ok := p.Heap[k]
					if !all || !ok || w.Kind != KSlice {
						all = false
						break
					}
					c := Lin{K: kk, T: map[string]*big.Rat{}}
					if !(Proves(p.Facts, GE(w.Len, c)) && Proves(p.Facts, LE(w.Len, c))) {
						all = false
					}
				}
				if all {
					st.Heap[k] = AVal{Kind: KSlice, Len: Lin{K: kk, T: map[string]*big.Rat{}}}
					continue
				}
				// a buffer that is re-allocated on one side only (`if len(tmp) < m { tmp = make([]byte, m) }`): a fresh
				// length with the bounds that hold on every incoming edge
				var incs []inc
				okAll := len(preds) >= 2 && len(preds) <= 4
				for _, p := range preds {
					w, ok := p.Heap[k]
					if !ok || w.Kind != KSlice {
						okAll = false
						break
					}
					incs = append(incs, inc{p, w.Len})
				}
				if okAll {
					nv := in.a.freshSlice(st, "join:"+k)
					joinBounds(st, nv.Len, incs)
					st.Heap[k] = nv
				}
			}
		}
	}
	// loop header phis: fresh symbols first, then the surviving candidate invariants. A candidate must
	// hold on the loop's entry edges too (the back edges are checked after the body was analysed).
	if l != nil {
		var phis []*ssa.Phi
		for _, ins := range b.Instrs {
			if ph, ok := ins.(*ssa.Phi); ok {
				phis = append(phis, ph)
				in.env[ph] = in.a.freshOf(st, ph.Type(), "phi:"+ph.Name())
			}
		}
		// the value each integer phi enters the loop with (one entry edge only)
		for _, ph := range phis {
			v := in.env[ph]
			if v.Kind != KInt {
				continue
			}
			n := 0
			var e AVal
			for i, pb := range b.Preds {
				for j, q := range predBlocks {
					if q == pb && !l.Blocks[pb] {
						n++
						e = in.val(preds[j], ph.Edges[i])
					}
				}
			}
			if n == 1 && e.Kind == KInt {
				in.entryVal[v.Int.String()] = e.Int
			}
		}
		for _, ph := range phis {
			v := in.env[ph]
			var keep []string
			for _, t := range in.inv[ph] {
				okT := true
				for i, pb := range b.Preds {
					for j, q := range predBlocks {
						if q == pb && !l.Blocks[pb] {
							i, j := i, j
							in.edge = func(o *ssa.Phi) (AVal, bool) {
								if i < len(o.Edges) {
									return in.val(preds[j], o.Edges[i]), true
								}
								return AVal{}, false
							}
							if !in.templateHolds(preds[j], t, v, in.val(preds[j], ph.Edges[i]), false) {
								okT = false
							}
							in.edge = nil
						}
					}
				}
				if okT {
					keep = append(keep, t)
				}
			}
			in.inv[ph] = keep
		}
		for _, ph := range phis {
			for _, t := range in.inv[ph] {
				in.assumeTemplate(st, t, in.env[ph])
			}
		}
	}
	// phis
	for _, ins := range b.Instrs {
		ph, ok := ins.(*ssa.Phi)
		if !ok {
			continue
		}
		if l != nil {
			continue // handled above
		}
		// non-loop merge: equal on all reachable preds?
		var vals []AVal
		for i, pb := range b.Preds {
			for j, q := range predBlocks {
				if q == pb {
					vals = append(vals, in.val(preds[j], ph.Edges[i]))
				}
			}
		}
		if len(vals) > 0 {
			same := true
			for _, w := range vals[1:] {
				if !sameAVal(vals[0], w) {
					same = false
				}
			}
			if same {
				in.env[ph] = vals[0]
				continue
			}
		}
		v := in.a.freshOf(st, ph.Type(), "phi:"+ph.Name())
		// templates that hold on every incoming edge
		idx := 0
		holds := map[string]bool{}
		for _, t := range in.templates() {
			holds[t] = true
		}
		for i, pb := range b.Preds {
			for j, q := range predBlocks {
				if q == pb {
					inc := in.val(preds[j], ph.Edges[i])
					for t := range holds {
						if holds[t] && !in.templateHolds(preds[j], t, v, inc, false) {
							holds[t] = false
						}
					}
					idx++
				}
			}
		}
		for t, ok := range holds {
			if ok {
				in.assumeTemplate(st, t, v)
			}
		}
		// min / max joins (`if a > b { a = b }`): bounds of the merged value by the incoming expressions and by
		// the symbols they mention, kept when they hold on every incoming edge
		if v.Kind == KInt {
			var incs []inc
			allInt := true
			for i, pb := range b.Preds {
				for j, q := range predBlocks {
					if q == pb {
						x := in.val(preds[j], ph.Edges[i])
						if x.Kind != KInt {
							allInt = false
						}
						incs = append(incs, inc{preds[j], x.Int})
					}
				}
			}
			if allInt && len(incs) >= 2 && len(incs) <= 4 {
				joinBounds(st, v.Int, incs)
			}
		}
		// the same for the length of a slice chosen on the way (`tmp := s.buf; if len(tmp) < n { tmp = make([]byte, n) }`)
		if v.Kind == KSlice {
			var incs []inc
			allSl := true
			for i, pb := range b.Preds {
				for j, q := range predBlocks {
					if q == pb {
						x := in.val(preds[j], ph.Edges[i])
						if x.Kind != KSlice {
							allSl = false
						}
						incs = append(incs, inc{preds[j], x.Len})
					}
				}
			}
			if allSl && len(incs) >= 2 && len(incs) <= 4 {
				joinBounds(st, v.Len, incs)
			}
		}
		// constant range
		if v.Kind == KInt {
			var lo, hi *big.Rat
			allC := true
			for i, pb := range b.Preds {
				for j, q := range predBlocks {
					if q == pb {
						inc := in.val(preds[j], ph.Edges[i])
						c, isC := constOf(preds[j], inc.Int)
						if inc.Kind != KInt || !isC {
							allC = false
							continue
						}
						if lo == nil || c.Cmp(lo) < 0 {
							lo = c
						}
						if hi == nil || c.Cmp(hi) > 0 {
							hi = c
						}
					}
				}
			}
			if allC && lo != nil {
				st.add(GE(v.Int, Lin{K: lo, T: map[string]*big.Rat{}}), LE(v.Int, Lin{K: hi, T: map[string]*big.Rat{}}))
			}
		}
		in.env[ph] = v
	}
	return st
}

// inc is one incoming value of a join with the state of its edge.
type inc struct {
	st *State
	l  Lin
}

// joinBounds adds to st the bounds of the merged value v that hold on every incoming edge: candidates are the
// incoming expressions, the symbols they mention, and the bounds an incoming symbol has by a fact of its own edge
// (`n <= ppos - cpos` for n = copy(.., s[i:i+b])).
func joinBounds(st *State, v Lin, incs []inc) {
	var cands []Lin
	seenC := map[string]bool{}
	addC := func(l Lin) {
		k := l.String()
		if !seenC[k] && len(cands) < 24 {
			seenC[k] = true
			cands = append(cands, l)
		}
	}
	for _, x := range incs {
		addC(x.l)
		var syms []string
		for sname := range x.l.T {
			syms = append(syms, sname)
		}
		sort.Strings(syms)
		for _, sname := range syms {
			addC(Sym(sname))
		}
	}
	for _, x := range incs {
		if len(x.l.T) != 1 || x.l.K.Sign() != 0 {
			continue
		}
		var s string
		for sname, co := range x.l.T {
			if co.Cmp(rat(1)) == 0 {
				s = sname
			}
		}
		if s == "" {
			continue
		}
		for _, f := range x.st.Facts {
			co, has := f.L.T[s]
			if !has || len(f.L.T) < 2 || len(f.L.T) > 4 {
				continue
			}
			if co.Cmp(rat(-1)) == 0 {
				addC(f.L.Add(Sym(s))) // E - s >= 0: s <= E
			} else if co.Cmp(rat(1)) == 0 {
				addC(f.L.Sub(Sym(s)).Neg()) // s - E >= 0: s >= E
			}
		}
	}
	for _, cnd := range cands {
		le, ge := true, true
		for _, x := range incs {
			if le && !Proves(x.st.Facts, LE(x.l, cnd)) {
				le = false
			}
			if ge && !Proves(x.st.Facts, GE(x.l, cnd)) {
				ge = false
			}
		}
		if le {
			st.add(LE(v, cnd))
		}
		if ge {
			st.add(GE(v, cnd))
		}
	}
}

func constOf(st *State, l Lin) (*big.Rat, bool) {
	if l.IsConst() {
		return l.K, true
	}
	return nil, false
}

func sameAVal(a, b AVal) bool {
	if a.Kind != b.Kind {
		return false
	}
	switch a.Kind {
	case KInt:
		return a.Int.Equal(b.Int)
	case KSlice:
		return a.Len.Equal(b.Len)
	case KAddr:
		return a.Obj == b.Obj && a.Path == b.Path
	}
	return false
}

// val evaluates an SSA value in a state.
func (in *inst) val(st *State, v ssa.Value) AVal {
	if x, ok := in.env[v]; ok {
		return x
	}
	switch c := v.(type) {
	case *ssa.Const:
		if c.Value == nil {
			if _, isSl := c.Type().Underlying().(*types.Slice); isSl {
				return AVal{Kind: KSlice, Len: Const(0), IsNil: 1}
			}
			return AVal{Kind: KIface, IsNil: 1}
		}
		if c.Value.Kind() == constant.Int {
			if b, ok := constant.Val(c.Value).(*big.Int); ok {
				return AVal{Kind: KInt, Int: ConstBig(b)}
			}
			if n, ok := constant.Int64Val(c.Value); ok {
				return AVal{Kind: KInt, Int: Const(n)}
			}
		}
		if c.Value.Kind() == constant.Bool {
			if constant.BoolVal(c.Value) {
				return AVal{Kind: KInt, Int: Const(1)}
			}
			return AVal{Kind: KInt, Int: Const(0)}
		}
		if c.Value.Kind() == constant.String {
			return AVal{Kind: KSlice, Len: Const(int64(len(constant.StringVal(c.Value))))}
		}
		return AVal{Kind: KUnknown}
	case *ssa.Global:
		return AVal{Kind: KAddr, Obj: "global:" + c.Name()}
	case *ssa.FreeVar:
		return AVal{Kind: KAddr, Obj: "free:" + c.Name()}
	}
	// a value defined in a block not yet visited (should not happen in RPO) or a parameter without binding
	x := in.a.freshOf(st, v.Type(), v.Name())
	in.env[v] = x
	return x
}

func heapKey(obj, path string) string { return obj + "|" + path }

// refine produces the state on the edge p -> b.
func (in *inst) refine(ps *State, p, b *ssa.BasicBlock) *State {
	iff, ok := p.Instrs[len(p.Instrs)-1].(*ssa.If)
	if !ok {
		return ps.clone()
	}
	st := ps.clone()
	truth := p.Succs[0] == b
	if p.Succs[0] == p.Succs[1] {
		return st
	}
	in.assume(st, iff.Cond, truth)
	return st
}

// assume adds what cond == truth implies.
func (in *inst) assume(st *State, cond ssa.Value, truth bool) {
	switch c := cond.(type) {
	case *ssa.Extract:
		// a boolean result of a call with several returns (`v, ok := f()`): if every return gives a
		// constant for it and exactly one matches, that return's facts and results hold
		if ov := in.val(st, c); ov.Rec != nil {
			in.importReturnBool(st, ov, truth)
		}
	case *ssa.UnOp:
		if c.Op == token.NOT {
			in.assume(st, c.X, !truth)
		}
	case *ssa.BinOp:
		x, y := in.val(st, c.X), in.val(st, c.Y)
		// nil tests
		if isNilConst(c.Y) || isNilConst(c.X) {
			operand := c.X
			if isNilConst(c.X) {
				operand = c.Y
			}
			isNil := (c.Op == token.EQL) == truth
			if isNil {
				st.Nil[operand] = 1
			} else {
				st.Nil[operand] = -1
			}
			ov := in.val(st, operand)
			if ov.Rec != nil {
				in.importReturn(st, ov, isNil)
			}
			return
		}
		if x.Kind != KInt || y.Kind != KInt {
			return
		}
		op := c.Op
		if !truth {
			switch op {
			case token.LSS:
				op = token.GEQ
			case token.LEQ:
				op = token.GTR
			case token.GTR:
				op = token.LEQ
			case token.GEQ:
				op = token.LSS
			case token.EQL:
				op = token.NEQ
			case token.NEQ:
				op = token.EQL
			}
		}
		switch op {
		case token.LSS:
			st.add(GE(y.Int, x.Int.AddK(1)))
		case token.LEQ:
			st.add(GE(y.Int, x.Int))
		case token.GTR:
			st.add(GE(x.Int, y.Int.AddK(1)))
		case token.GEQ:
			st.add(GE(x.Int, y.Int))
		case token.EQL:
			st.add(EQ(x.Int, y.Int)...)
		case token.NEQ:
			// at a boundary: x != y with x >= y known gives x >= y+1 (and symmetrically)
			if Proves(st.Facts, GE(x.Int, y.Int)) {
				st.add(GE(x.Int, y.Int.AddK(1)))
			} else if Proves(st.Facts, LE(x.Int, y.Int)) {
				st.add(LE(x.Int, y.Int.AddK(-1)))
			}
		}
	case *ssa.Call:
		// a boolean helper with several returns, each yielding a constant: the facts of the matching return hold
		// when exactly one matches (`if !bf.waitForConsumer(wrap) { return EOF }`)
		if ov := in.val(st, c); ov.Rec != nil {
			in.importReturnBool(st, ov, truth)
		}
	case *ssa.Parameter:
		// a boolean parameter of an inlined helper bound to a constant at the call site (`waitFor(pos, true)`): the edge
		// for the other value carries a contradiction, so it contributes nothing at the joins behind it
		if bt, ok := c.Type().Underlying().(*types.Basic); ok && bt.Kind() == types.Bool {
			if ov, bound := in.env[c]; bound && ov.Kind == KInt && ov.Int.IsConst() {
				isTrue := Proves(nil, GE(ov.Int, Const(1)))
				if isTrue != truth {
					st.Dead = true
				}
			}
		}
	}
}

func isNilConst(v ssa.Value) bool {
	c, ok := v.(*ssa.Const)
	return ok && c.Value == nil
}

// importReturn: the caller learned that result ov (an error) of a multi-return call is nil / non-nil:
// if exactly one return of the callee is compatible, its facts and results hold.
func (in *inst) importReturn(st *State, ov AVal, isNil bool) {
	rec := ov.Rec
	var match []retInfo
	for _, r := range rec.Rets {
		n := r.Results[ov.Idx].IsNil
		if isNil && n == 1 || !isNil && n == -1 {
			match = append(match, r)
		}
		if n == 0 {
			return // some return is undetermined: cannot select
		}
	}
	if len(match) == 0 {
		return
	}
	if len(match) > 1 {
		// several returns are compatible (a fast path and a slow path that both succeed): what they agree on
		in.importCommon(st, rec, match)
		return
	}
	r := match[0]
	if len(r.State.Facts) >= rec.NFacts {
		st.add(r.State.Facts[rec.NFacts:]...)
	}
	for i, cr := range rec.Results {
		rr := r.Results[i]
		switch {
		case cr.Kind == KInt && rr.Kind == KInt:
			st.add(EQ(cr.Int, rr.Int)...)
		case cr.Kind == KSlice && rr.Kind == KSlice:
			st.add(EQ(cr.Len, rr.Len)...)
		}
	}
	for k, v := range r.State.Heap {
		st.Heap[k] = v
	}
}

// importCommon: the caller learned that one of several returns of the callee happened: results on which they all
// agree, facts of the first that every other one proves, heap entries they share.
func (in *inst) importCommon(st *State, rec *callRec, match []retInfo) {
	if len(match) > 4 {
		return
	}
	first := match[0]
	for i, cr := range rec.Results {
		same := true
		for _, r := range match[1:] {
			if !sameAVal(first.Results[i], r.Results[i]) {
				same = false
			}
		}
		if !same {
			continue
		}
		rr := first.Results[i]
		switch {
		case cr.Kind == KInt && rr.Kind == KInt:
			st.add(EQ(cr.Int, rr.Int)...)
		case cr.Kind == KSlice && rr.Kind == KSlice:
			st.add(EQ(cr.Len, rr.Len)...)
		}
	}
	if len(first.State.Facts) >= rec.NFacts {
		n := 0
		for _, f := range first.State.Facts[rec.NFacts:] {
			if n > 40 {
				break
			}
			n++
			all := true
			for _, r := range match[1:] {
				if !Proves(r.State.Facts, f) {
					all = false
					break
				}
			}
			if all {
				st.add(f)
			}
		}
	}
	for k, v := range first.State.Heap {
		same := true
		for _, r := range match[1:] {
			if w, ok := r.State.Heap[k]; !ok || !sameAVal(v, w) {
				same = false
			}
		}
		if same {
			st.Heap[k] = v
		}
	}
}

// importReturnBool: like importReturn, selecting on a boolean result that is constant at every return.
func (in *inst) importReturnBool(st *State, ov AVal, truth bool) {
	rec := ov.Rec
	var match []retInfo
	for _, r := range rec.Rets {
		if ov.Idx >= len(r.Results) {
			return
		}
		b := r.Results[ov.Idx]
		if b.Kind != KInt || !b.Int.IsConst() {
			return // not a constant at some return: cannot select
		}
		if (b.Int.K.Sign() != 0) == truth {
			match = append(match, r)
		}
	}
	if len(match) == 0 {
		return
	}
	if len(match) > 1 {
		// several returns are compatible (a fast path and a slow path that both succeed): what they agree on
		in.importCommon(st, rec, match)
		return
	}
	r := match[0]
	if len(r.State.Facts) >= rec.NFacts {
		st.add(r.State.Facts[rec.NFacts:]...)
	}
	for i, cr := range rec.Results {
		rr := r.Results[i]
		switch {
		case cr.Kind == KInt && rr.Kind == KInt:
			st.add(EQ(cr.Int, rr.Int)...)
		case cr.Kind == KSlice && rr.Kind == KSlice:
			st.add(EQ(cr.Len, rr.Len)...)
		}
	}
	for k, v := range r.State.Heap {
		st.Heap[k] = v
	}
}

func (in *inst) ordinal(ins ssa.Instruction, kind string) int {
	m := in.a.ordinals[in.fn]
	if m == nil {
		m = map[ssa.Instruction]int{}
		n := map[string]int{}
		for _, b := range in.fn.Blocks {
			for _, x := range b.Instrs {
				k := ""
				switch y := x.(type) {
				case *ssa.IndexAddr, *ssa.Index:
					k = "index"
				case *ssa.Slice:
					k = "slice"
				case *ssa.MakeSlice:
					k = "make"
				case *ssa.Call:
					if f := y.Common().StaticCallee(); f != nil && f.Pkg != nil && f.Pkg.Pkg.Path() == "encoding/binary" {
						k = "binary." + f.Name()
					}
				}
				if k != "" {
					n[k]++
					m[x] = n[k]
				}
			}
		}
		in.a.ordinals[in.fn] = m
	}
	return m[ins]
}

// oblige records a goal at an instruction.
func (in *inst) oblige(st *State, ins ssa.Instruction, kind, desc string, goals ...Ineq) {
	if !in.record {
		return
	}
	key := fmt.Sprintf("%s:%s#%d", core.FuncName(in.fn), kind, in.ordinal(ins, kind))
	o := in.a.Obls[key]
	if o == nil {
		o = &Obl{Key: key, Instr: ins, Desc: desc, Proven: true}
		in.a.Obls[key] = o
		in.a.Order = append(in.a.Order, key)
	}
	o.Contexts++
	for _, g := range goals {
		if !Proves(st.Facts, g) {
			o.Proven = false
			if len(o.Failed) < 4 {
				o.Failed = append(o.Failed, fmt.Sprintf("in context %s: cannot show %s", in.ctx, g))
			}
		}
	}
}

func (in *inst) block(b *ssa.BasicBlock, st *State) {
	for _, ins := range b.Instrs {
		if in.record && in.a.Probe != nil {
			in.a.Probe(&Probe{Instr: ins, St: st, Ctx: in.ctx, frames: in.chain()})
		}
		in.instr(st, ins)
		if st.Dead {
			return
		}
		if in.record && in.a.Probe != nil {
			in.a.Probe(&Probe{Instr: ins, Post: true, St: st, Ctx: in.ctx, frames: in.chain()})
		}
	}
}

func (in *inst) lenOf(st *State, v AVal, name string) Lin {
	if v.Kind == KSlice {
		return v.Len
	}
	l := Sym(in.a.fresh("len:" + name))
	st.add(GE(l, Const(0)))
	return l
}

func (in *inst) load(st *State, addr AVal, t types.Type, name string) AVal {
	if addr.Kind != KAddr {
		return in.a.freshOf(st, t, name)
	}
	k := heapKey(addr.Obj, addr.Path)
	if in.a.Invariant != nil && addr.Own != "" {
		field := addr.Path
		if i := strings.LastIndex(field, "."); i >= 0 {
			field = field[i+1:]
		}
		// the object is identified by the path up to the field
		obj := addr.Obj + "|" + strings.TrimSuffix(addr.Path, field)
		if v, ok := in.a.Invariant(in.a, st, addr.Own, field, obj); ok {
			return v
		}
	}
	if v, ok := st.Heap[k]; ok {
		return v
	}
	v := in.a.freshOf(st, t, name)
	if v.Kind == KAddr && v.Path == "" {
		// pointer stored in a field: a stable object id per location
		v.Obj = "obj@" + k
	}
	st.Heap[k] = v
	return v
}

func (in *inst) instr(st *State, ins ssa.Instruction) {
	switch x := ins.(type) {
	case *ssa.Phi:
		// handled in merge; single-predecessor blocks: the only reachable edge
		if _, ok := in.env[x]; !ok {
			b := x.Block()
			for i, p := range b.Preds {
				if _, ok := in.out[p]; ok {
					in.env[x] = in.val(st, x.Edges[i])
					break
				}
			}
		}
	case *ssa.BinOp:
		in.env[x] = in.binop(st, x)
	case *ssa.UnOp:
		switch x.Op {
		case token.MUL:
			in.env[x] = in.load(st, in.val(st, x.X), x.Type(), x.Name())
		case token.SUB:
			v := in.val(st, x.X)
			if v.Kind == KInt {
				in.env[x] = AVal{Kind: KInt, Int: v.Int.Neg()}
			} else {
				in.env[x] = in.a.freshOf(st, x.Type(), x.Name())
			}
		default:
			in.env[x] = in.a.freshOf(st, x.Type(), x.Name())
		}
	case *ssa.Convert:
		in.env[x] = in.convert(st, x)
	case *ssa.ChangeType:
		in.env[x] = in.val(st, x.X)
	case *ssa.ChangeInterface:
		in.env[x] = in.val(st, x.X)
	case *ssa.MakeInterface:
		d := in.val(st, x.X)
		in.env[x] = AVal{Kind: KIface, IsNil: -1, Dyn: &d}
	case *ssa.Alloc:
		in.env[x] = AVal{Kind: KAddr, Obj: in.a.fresh("alloc:" + x.Name())}
	case *ssa.FieldAddr:
		base := in.val(st, x.X)
		stt, _ := structOf(x.X.Type())
		name := fmt.Sprint(x.Field)
		if stt != nil {
			name = stt.Field(x.Field).Name()
		}
		own := ""
		if _, named := structOf(x.X.Type()); named != nil && named.Obj().Pkg() != nil {
			own = named.Obj().Pkg().Name() + "." + named.Obj().Name()
		}
		if base.Kind == KAddr {
			p := name
			if base.Path != "" {
				p = base.Path + "." + name
			}
			in.env[x] = AVal{Kind: KAddr, Obj: base.Obj, Path: p, Own: own}
		} else {
			in.env[x] = AVal{Kind: KAddr, Obj: in.a.fresh("obj:" + x.Name())}
		}
	case *ssa.Field:
		in.env[x] = in.a.freshOf(st, x.Type(), x.Name())
	case *ssa.IndexAddr:
		base := in.val(st, x.X)
		idx := in.val(st, x.Index)
		switch bt := x.X.Type().Underlying().(type) {
		case *types.Slice:
			if idx.Kind == KInt {
				l := in.lenOf(st, base, x.X.Name())
				in.oblige(st, x, "index", "0 <= i < len(s) for "+x.String(), GE(idx.Int, Const(0)), GE(l, idx.Int.AddK(1)))
				// the access executed: the facts hold afterwards
				st.add(GE(idx.Int, Const(0)), GE(l, idx.Int.AddK(1)))
			}
		case *types.Pointer:
			// pointer to array: bounds known statically by the compiler for constants
			if arr, ok := bt.Elem().Underlying().(*types.Array); ok && idx.Kind == KInt {
				in.oblige(st, x, "index", "0 <= i < len(array)", GE(idx.Int, Const(0)), LE(idx.Int, Const(arr.Len()-1)))
			}
		}
		in.env[x] = AVal{Kind: KAddr, Obj: in.a.fresh("elem:" + x.Name())}
	case *ssa.Index:
		in.env[x] = in.a.freshOf(st, x.Type(), x.Name())
	case *ssa.Slice:
		in.env[x] = in.slice(st, x)
	case *ssa.MakeSlice:
		n := in.val(st, x.Len)
		if n.Kind == KInt {
			in.oblige(st, x, "make", "make([]T, n) with n >= 0", GE(n.Int, Const(0)))
			in.env[x] = AVal{Kind: KSlice, Len: n.Int}
			if in.record {
				in.a.Allocs = append(in.a.Allocs, AllocSite{Instr: x, Size: n.Int, Facts: st.Facts, Context: in.ctx})
			}
		} else {
			in.env[x] = in.a.freshSlice(st, x.Name())
		}
	case *ssa.Store:
		addr := in.val(st, x.Addr)
		if addr.Kind == KAddr {
			st.Heap[heapKey(addr.Obj, addr.Path)] = in.val(st, x.Val)
		}
	case *ssa.Extract:
		t := in.val(st, x.Tuple)
		if t.Kind == KTuple && x.Index < len(t.Tuple) {
			v := t.Tuple[x.Index]
			if t.Rec != nil {
				v.Rec = t.Rec
				v.Idx = x.Index
			}
			in.env[x] = v
		} else {
			in.env[x] = in.a.freshOf(st, x.Type(), x.Name())
		}
	case *ssa.Call:
		in.env[x] = in.doCall(st, x)
	case *ssa.Return:
		var res []AVal
		for ri, r := range x.Results {
			v := in.val(st, r)
			if n, ok := st.Nil[r]; ok && v.IsNil == 0 {
				v.IsNil = n
			}
			// functions with a defer return through result cells (`*r = v; rundefers; t = *r; return t`)
			under := ir.ReturnOperand(x, ri)
			if n, ok := st.Nil[under]; ok && v.IsNil == 0 {
				v.IsNil = n
			}
			if v.Kind == KIface && v.IsNil == 0 {
				// an error built by a call (fmt.Errorf) or loaded from a package-level variable is non-nil
				switch y := under.(type) {
				case *ssa.Call:
					if f := y.Common().StaticCallee(); f != nil && f.Pkg != nil && (f.Pkg.Pkg.Path() == "fmt" || f.Pkg.Pkg.Path() == "errors") {
						v.IsNil = -1
					}
				case *ssa.UnOp:
					if _, isG := y.X.(*ssa.Global); isG {
						v.IsNil = -1
					}
				}
			}
			res = append(res, v)
		}
		in.rets = append(in.rets, retInfo{Ret: x, State: st.clone(), Results: res})
	case *ssa.Panic:
		st.Dead = true
	case *ssa.TypeAssert:
		in.env[x] = in.a.freshOf(st, x.Type(), x.Name())
	case *ssa.Lookup:
		in.env[x] = in.a.freshOf(st, x.Type(), x.Name())
	case *ssa.MapUpdate, *ssa.If, *ssa.Jump, *ssa.DebugRef, *ssa.RunDefers, *ssa.Defer, *ssa.Go, *ssa.Send:
	case *ssa.Range, *ssa.Next, *ssa.Select, *ssa.MakeMap, *ssa.MakeChan, *ssa.MakeClosure:
		if v, ok := ins.(ssa.Value); ok {
			in.env[v] = in.a.freshOf(st, v.Type(), v.Name())
		}
	default:
		if v, ok := ins.(ssa.Value); ok {
			in.env[v] = in.a.freshOf(st, v.Type(), v.Name())
		}
	}
}

func structOf(t types.Type) (*types.Struct, *types.Named) {
	if p, ok := t.Underlying().(*types.Pointer); ok {
		t = p.Elem()
	}
	named, _ := t.(*types.Named)
	st, _ := t.Underlying().(*types.Struct)
	return st, named
}

func (in *inst) binop(st *State, x *ssa.BinOp) AVal {
	a, b := in.val(st, x.X), in.val(st, x.Y)
	if _, _, isInt := in.a.typeRange(x.Type()); !isInt {
		return in.a.freshOf(st, x.Type(), x.Name())
	}
	if a.Kind != KInt || b.Kind != KInt {
		return in.a.freshInt(st, x.Type(), x.Name())
	}
	// arithmetic in an explicitly sized type of at most 32 bits wraps around: the exact linear
	// result is used only when it provably fits the type (int / uint / 64-bit types are trusted
	// not to overflow, see DESIGN.md)
	narrow := func(r Lin) AVal {
		bt, ok := x.Type().Underlying().(*types.Basic)
		if !ok {
			return AVal{Kind: KInt, Int: r}
		}
		switch bt.Kind() {
		case types.Int8, types.Int16, types.Int32, types.Uint8, types.Uint16, types.Uint32:
			tmin, tmax, _ := in.a.typeRange(x.Type())
			if Proves(st.Facts, GE(r, ConstBig(tmin))) && Proves(st.Facts, LE(r, ConstBig(tmax))) {
				return AVal{Kind: KInt, Int: r}
			}
			return in.a.freshInt(st, x.Type(), x.Name())
		}
		return AVal{Kind: KInt, Int: r}
	}
	switch x.Op {
	case token.ADD:
		return narrow(a.Int.Add(b.Int))
	case token.SUB:
		_, _, _ = a, b, st
		// unsigned subtraction can wrap: exact only if provably non-negative
		if bt, ok := x.Type().Underlying().(*types.Basic); ok && bt.Info()&types.IsUnsigned != 0 {
			d := a.Int.Sub(b.Int)
			if Proves(st.Facts, GE(d, Const(0))) {
				return AVal{Kind: KInt, Int: d}
			}
			return in.a.freshInt(st, x.Type(), x.Name())
		}
		return narrow(a.Int.Sub(b.Int))
	case token.MUL:
		if b.Int.IsConst() {
			return narrow(a.Int.Scale(b.Int.K))
		}
		if a.Int.IsConst() {
			return narrow(b.Int.Scale(a.Int.K))
		}
	case token.AND:
		// x & m with a non-negative mask (constant or provably >= 0) lies in [0, m]
		for _, m := range []AVal{b, a} {
			if m.Int.IsConst() && m.Int.K.Sign() >= 0 || !m.Int.IsConst() && Proves(st.Facts, GE(m.Int, Const(0))) {
				v := in.a.freshInt(st, x.Type(), x.Name())
				st.add(GE(v.Int, Const(0)), LE(v.Int, m.Int))
				return v
			}
		}
	case token.SHL:
		// x << k for a small constant k is x * 2^k (narrow types wrap, see narrow)
		if b.Int.IsConst() && b.Int.K.IsInt() && b.Int.K.Sign() >= 0 && b.Int.K.Num().IsInt64() && b.Int.K.Num().Int64() <= 32 {
			f := new(big.Rat).SetInt(new(big.Int).Lsh(big.NewInt(1), uint(b.Int.K.Num().Int64())))
			return narrow(a.Int.Scale(f))
		}
	case token.OR:
		// for non-negative operands: max(x, y) <= x | y <= x + y
		if Proves(st.Facts, GE(a.Int, Const(0))) && Proves(st.Facts, GE(b.Int, Const(0))) {
			v := in.a.freshInt(st, x.Type(), x.Name())
			st.add(GE(v.Int, a.Int), GE(v.Int, b.Int), LE(v.Int, a.Int.Add(b.Int)))
			return v
		}
	case token.SHR:
		v := in.a.freshInt(st, x.Type(), x.Name())
		if Proves(st.Facts, GE(a.Int, Const(0))) {
			st.add(GE(v.Int, Const(0)), LE(v.Int, a.Int))
		}
		return v
	case token.REM:
		if b.Int.IsConst() && b.Int.K.Sign() > 0 {
			v := in.a.freshInt(st, x.Type(), x.Name())
			if Proves(st.Facts, GE(a.Int, Const(0))) {
				st.add(GE(v.Int, Const(0)), LE(v.Int, b.Int.AddK(-1)))
			}
			return v
		}
	}
	return in.a.freshInt(st, x.Type(), x.Name())
}

func (in *inst) convert(st *State, x *ssa.Convert) AVal {
	v := in.val(st, x.X)
	tmin, tmax, tInt := in.a.typeRange(x.Type())
	if !tInt {
		// []byte(string) / string([]byte): same length
		if v.Kind == KSlice {
			return v
		}
		return in.a.freshOf(st, x.Type(), x.Name())
	}
	if v.Kind != KInt {
		return in.a.freshInt(st, x.Type(), x.Name())
	}
	smin, smax, sInt := in.a.typeRange(x.X.Type())
	if sInt && smin.Cmp(tmin) >= 0 && smax.Cmp(tmax) <= 0 {
		return v // widening
	}
	// narrowing / sign change: the identity only if provably in range
	if Proves(st.Facts, GE(v.Int, ConstBig(tmin))) && Proves(st.Facts, LE(v.Int, ConstBig(tmax))) {
		return v
	}
	return in.a.freshInt(st, x.Type(), x.Name())
}

func (in *inst) slice(st *State, x *ssa.Slice) AVal {
	base := in.val(st, x.X)
	var baseLen Lin
	switch bt := x.X.Type().Underlying().(type) {
	case *types.Pointer:
		if arr, ok := bt.Elem().Underlying().(*types.Array); ok {
			baseLen = Const(arr.Len())
		} else {
			baseLen = in.lenOf(st, base, x.X.Name())
		}
	default:
		baseLen = in.lenOf(st, base, x.X.Name())
	}
	lo := Const(0)
	if x.Low != nil {
		l := in.val(st, x.Low)
		if l.Kind != KInt {
			return in.a.freshSlice(st, x.Name())
		}
		lo = l.Int
	}
	hi := baseLen
	if x.High != nil {
		h := in.val(st, x.High)
		if h.Kind != KInt {
			return in.a.freshSlice(st, x.Name())
		}
		hi = h.Int
	}
	// against len, not cap: "never reads or exposes bytes beyond the end of the slice it was given"
	in.oblige(st, x, "slice", "0 <= lo <= hi <= len(s) for "+x.String(), GE(lo, Const(0)), GE(hi, lo), LE(hi, baseLen))
	st.add(GE(lo, Const(0)), GE(hi, lo), LE(hi, baseLen))
	for _, n := range in.localSlices() {
		if n == "loc:"+x.Name() {
			in.params[n] = hi.Sub(lo)
		}
	}
	return AVal{Kind: KSlice, Len: hi.Sub(lo)}
}

func (in *inst) havocHeap(st *State) { st.Heap = map[string]AVal{} }

func (in *inst) doCall(st *State, c *ssa.Call) AVal {
	cc := c.Common()
	var args []AVal
	for _, a := range cc.Args {
		args = append(args, in.val(st, a))
	}
	if bi, ok := cc.Value.(*ssa.Builtin); ok {
		switch bi.Name() {
		case "len":
			return AVal{Kind: KInt, Int: in.lenOf(st, args[0], cc.Args[0].Name())}
		case "cap":
			v := in.a.freshInt(st, c.Type(), c.Name())
			st.add(GE(v.Int, in.lenOf(st, args[0], cc.Args[0].Name())))
			return v
		case "append":
			if len(args) == 2 && args[0].Kind == KSlice && args[1].Kind == KSlice {
				return AVal{Kind: KSlice, Len: args[0].Len.Add(args[1].Len)}
			}
			return in.a.freshSlice(st, c.Name())
		case "copy":
			v := in.a.freshInt(st, c.Type(), c.Name())
			st.add(GE(v.Int, Const(0)))
			if args[0].Kind == KSlice {
				st.add(LE(v.Int, args[0].Len))
			}
			if args[1].Kind == KSlice {
				st.add(LE(v.Int, args[1].Len))
			}
			return v
		}
		return in.a.freshOf(st, c.Type(), c.Name())
	}
	callee := cc.StaticCallee()
	if callee != nil && callee.Pkg != nil {
		switch callee.Pkg.Pkg.Path() {
		case "encoding/binary":
			return in.binaryCall(st, c, callee, args)
		case "bytes", "fmt", "errors", "regexp", "strings", "unicode/utf8", "sync/atomic":
			return in.a.freshOf(st, c.Type(), c.Name())
		}
	}
	if callee != nil && callee.Blocks != nil && in.a.P.InLib(callee) && in.depth < in.a.MaxDepth && !in.onStack(callee) {
		nf := len(st.Facts)
		rets := in.a.callFrom(in, callee, args, st)
		if len(rets) == 0 {
			st.Dead = true
			return AVal{Kind: KUnknown}
		}
		pack := func(rs []AVal) AVal {
			if len(rs) == 1 {
				return rs[0]
			}
			return AVal{Kind: KTuple, Tuple: rs}
		}
		if len(rets) == 1 {
			st.Facts = rets[0].State.Facts
			st.Heap = rets[0].State.Heap
			return pack(rets[0].Results)
		}
		// several returns: results agreed by all, else fresh; heap unknown for what differs
		nres := len(rets[0].Results)
		res := make([]AVal, nres)
		sig := callee.Signature.Results()
		for i := 0; i < nres; i++ {
			same := true
			for _, r := range rets[1:] {
				if !sameAVal(rets[0].Results[i], r.Results[i]) {
					same = false
				}
			}
			if same && rets[0].Results[i].Kind != KUnknown && rets[0].Results[i].Kind != KIface {
				res[i] = rets[0].Results[i]
			} else {
				res[i] = in.a.freshOf(st, sig.At(i).Type(), fmt.Sprintf("%s.r%d", c.Name(), i))
			}
		}
		rec := &callRec{Rets: rets, Results: res, NFacts: nf}
		// heap: keep what all returns agree on
		h := map[string]AVal{}
		for k, v := range rets[0].State.Heap {
			ok := true
			for _, r := range rets[1:] {
				if w, has := r.State.Heap[k]; !has || !sameAVal(v, w) {
					ok = false
				}
			}
			if ok {
				h[k] = v
			}
		}
		// slices that provably have the same constant length at every return (a helper that allocates a
		// one-byte buffer unless there is one already)
		for k, v := range rets[0].State.Heap {
			if _, done := h[k]; done || v.Kind != KSlice {
				continue
			}
			var kk *big.Rat
			for _, r := range rets {
				if w, has := r.State.Heap[k]; has && w.Kind == KSlice && w.Len.IsConst() {
					kk = w.Len.K
				}
			}
			if kk == nil {
				continue
			}
			cst := Lin{K: kk, T: map[string]*big.Rat{}}
			all := true
			for _, r := range rets {
				w, has := r.State.Heap[k]
				if !has || w.Kind != KSlice || !(Proves(r.State.Facts, GE(w.Len, cst)) && Proves(r.State.Facts, LE(w.Len, cst))) {
					all = false
				}
			}
			if all {
				h[k] = AVal{Kind: KSlice, Len: cst}
			}
		}
		st.Heap = h
		// facts that every return establishes about the results (range templates): 0 <= r, r <= len(param)
		for i := range res {
			if res[i].Kind == KInt {
				okGe := true
				for _, r := range rets {
					if r.Results[i].Kind != KInt || !Proves(r.State.Facts, GE(r.Results[i].Int, Const(0))) {
						okGe = false
					}
				}
				if okGe {
					st.add(GE(res[i].Int, Const(0)))
				}
				for ai, av := range args {
					if av.Kind != KSlice {
						continue
					}
					_ = ai
					okLe := true
					for _, r := range rets {
						if r.Results[i].Kind != KInt || !Proves(r.State.Facts, LE(r.Results[i].Int, av.Len)) {
							okLe = false
						}
					}
					if okLe {
						st.add(LE(res[i].Int, av.Len))
					}
				}
			}
		}
		out := pack(res)
		out.Rec = rec
		if out.Kind != KTuple {
			out.Idx = 0
		}
		return out
	}
	// unknown callee: results unknown; objects reachable from pointer arguments may change
	for _, a := range args {
		if a.Kind == KAddr {
			in.havocHeap(st)
			break
		}
	}
	if cc.IsInvoke() {
		in.havocHeap(st)
		// io.Reader / io.Writer contract: Read(p) and Write(p) return 0 <= n <= len(p)
		if (cc.Method.Name() == "Read" || cc.Method.Name() == "Write") && len(args) == 1 && args[0].Kind == KSlice {
			if tup, ok := c.Type().(*types.Tuple); ok && tup.Len() == 2 {
				n := in.a.freshInt(st, tup.At(0).Type(), c.Name()+".n")
				st.add(GE(n.Int, Const(0)), LE(n.Int, args[0].Len))
				return AVal{Kind: KTuple, Tuple: []AVal{n, {Kind: KIface}}}
			}
		}
	}
	return in.a.freshOf(st, c.Type(), c.Name())
}

func (in *inst) onStack(fn *ssa.Function) bool {
	name := core.FuncName(fn)
	for _, part := range strings.Split(in.ctx, " > ") {
		if part == name {
			return true
		}
	}
	return false
}

func (a *Analyzer) callFrom(in *inst, callee *ssa.Function, args []AVal, st *State) []retInfo {
	ctx := in.ctx + " > " + core.FuncName(callee)
	return a.call(callee, args, st, in.depth+1, ctx, in.record, in)
}

// binaryCall models encoding/binary.
func (in *inst) binaryCall(st *State, c *ssa.Call, callee *ssa.Function, args []AVal) AVal {
	name := callee.Name()
	// methods of the byte-order value: args[0] is the receiver
	switch name {
	case "Uint16", "Uint32", "Uint64", "PutUint16", "PutUint32", "PutUint64":
		need := map[string]int64{"Uint16": 2, "PutUint16": 2, "Uint32": 4, "PutUint32": 4, "Uint64": 8, "PutUint64": 8}[name]
		if len(args) >= 2 && args[1].Kind == KSlice {
			in.oblige(st, c, "binary."+name, fmt.Sprintf("len(b) >= %d for %s", need, name), GE(args[1].Len, Const(need)))
			st.add(GE(args[1].Len, Const(need)))
		}
		return in.a.freshOf(st, c.Type(), c.Name())
	case "Uvarint":
		// (uint64, int): n <= len(buf), -10 <= n <= 10
		v := in.a.freshInt(st, types.Typ[types.Uint64], c.Name()+".v")
		n := in.a.freshInt(st, types.Typ[types.Int], c.Name()+".n")
		st.add(GE(n.Int, Const(-10)), LE(n.Int, Const(10)))
		if len(args) >= 1 && args[0].Kind == KSlice {
			st.add(LE(n.Int, args[0].Len))
		}
		return AVal{Kind: KTuple, Tuple: []AVal{v, n}}
	case "PutUvarint":
		n := in.a.freshInt(st, types.Typ[types.Int], c.Name())
		st.add(GE(n.Int, Const(1)), LE(n.Int, Const(10)))
		return n
	}
	return in.a.freshOf(st, c.Type(), c.Name())
}

// LoopPhi describes one loop-carried variable of the entry function.
type LoopPhi struct {
	Phi      *ssa.Phi
	Header   AVal
	BackEdge []AVal
}

// HeapAtReturn returns the abstract value of field path `path` of the object the idx-th
// argument of the entry function points to, at return r.
func (a *Analyzer) HeapAtReturn(r int, idx int, path string) (AVal, bool) {
	if r >= len(a.EntryRets) || idx >= len(a.EntryArgs) || a.EntryArgs[idx].Kind != KAddr {
		return AVal{}, false
	}
	base := a.EntryArgs[idx]
	p := path
	if base.Path != "" {
		p = base.Path + "." + path
	}
	v, ok := a.EntryRets[r].State.Heap[heapKey(base.Obj, p)]
	return v, ok
}

// EntryReturn exposes the idx-th return of the entry function: instruction, results, facts.
func (a *Analyzer) EntryReturn(idx int) (*ssa.Return, []AVal, []Ineq) {
	r := a.EntryRets[idx]
	return r.Ret, r.Results, r.State.Facts
}

// RetVariant is one way a return of the entry function can happen.
type RetVariant struct {
	Ret     *ssa.Return
	Results []AVal
	Facts   []Ineq
	Heap    map[string]AVal
}

// EntryReturnVariants splits the idx-th return of the entry function when it passes on the results of a library
// call with several returns whose error is still undetermined (`return m.header.decode(src)`): one variant per
// return of that callee, with its facts, results and heap. Otherwise the return itself is the only variant.
func (a *Analyzer) EntryReturnVariants(idx int) []RetVariant {
	r := a.EntryRets[idx]
	one := []RetVariant{{r.Ret, r.Results, r.State.Facts, r.State.Heap}}
	if len(r.Results) == 0 {
		return one
	}
	last := r.Results[len(r.Results)-1]
	if last.IsNil != 0 || last.Rec == nil {
		return one
	}
	rec := last.Rec
	var out []RetVariant
	for _, rr := range rec.Rets {
		st := r.State.clone()
		if len(rr.State.Facts) >= rec.NFacts {
			st.add(rr.State.Facts[rec.NFacts:]...)
		}
		res := make([]AVal, len(r.Results))
		for j, v := range r.Results {
			res[j] = v
			if v.Rec == rec && v.Idx < len(rr.Results) {
				res[j] = rr.Results[v.Idx]
			}
		}
		for k, v := range rr.State.Heap {
			st.Heap[k] = v
		}
		out = append(out, RetVariant{r.Ret, res, st.Facts, st.Heap})
	}
	return out
}

// RetCheck is the verdict on one return of the entry function.
type RetCheck struct {
	Ret    *ssa.Return
	Proven bool
	Detail string
}

// CheckCountResult: at every return of the entry function, result #idx (a byte count)
// satisfies 0 <= n <= len(param #pidx).
func (a *Analyzer) CheckCountResult(idx, pidx int) []RetCheck {
	var out []RetCheck
	if pidx >= len(a.EntryArgs) || a.EntryArgs[pidx].Kind != KSlice {
		return nil
	}
	l := a.EntryArgs[pidx].Len
	for _, r := range a.EntryRets {
		if idx >= len(r.Results) || r.Results[idx].Kind != KInt {
			out = append(out, RetCheck{r.Ret, false, "the count is not an integer expression"})
			continue
		}
		n := r.Results[idx].Int
		ge := Proves(r.State.Facts, GE(n, Const(0)))
		le := Proves(r.State.Facts, LE(n, l))
		d := ""
		if !ge {
			d += "cannot show n >= 0 (n = " + n.String() + "); "
		}
		if !le {
			d += "cannot show n <= len(src) (n = " + n.String() + "); "
		}
		out = append(out, RetCheck{r.Ret, ge && le, d})
	}
	return out
}

// loopWritesHeap: the loop's blocks contain a store that is not to a local variable, a map update, or a
// call other than a side-effect-free builtin.
func loopWritesHeap(l *ir.Loop) bool {
	for b := range l.Blocks {
		for _, in := range b.Instrs {
			switch x := in.(type) {
			case *ssa.Store:
				if al, ok := x.Addr.(*ssa.Alloc); ok && !al.Heap {
					continue
				}
				return true
			case *ssa.MapUpdate, *ssa.Send, *ssa.Go, *ssa.Defer:
				return true
			case *ssa.Call:
				if bi, ok := x.Common().Value.(*ssa.Builtin); ok {
					switch bi.Name() {
					case "len", "cap", "append", "min", "max":
						continue
					}
				}
				return true
			}
		}
	}
	return false
}
