// Package paths is engine P: an interprocedural (bounded inlining) control-flow
// supergraph over go/ssa with path search. All queries are "is there a path
// from A to B that avoids M"; a found path is the witness.
package paths

import (
	"fmt"
	"go/constant"
	"go/token"
	"go/types"
	"sort"
	"strings"

	"golang.org/x/tools/go/ssa"

	"verif/internal/core"
	"verif/internal/ir"
)

// Frame is one inlined activation.
type Frame struct {
	Fn     *ssa.Function
	Parent *Frame
	Site   ssa.CallInstruction // call in Parent that created this frame (nil for root)
	Phase  int                 // deferred phase of the site (see Node.Phase)
	RD     *ssa.RunDefers      // the RunDefers that runs Site when Site is a deferred call
	Depth  int
	G      *Graph
	kids   map[frameKey]*Frame
}

type frameKey struct {
	site  ssa.Instruction
	phase int
	fn    *ssa.Function
}

// Node is a program point: instruction `Instr` of frame `F` is about to execute.
// Phase >= 0 means: we are inside the RunDefers instruction Instr, about to run
// the Phase-th entry of the deferred-call list; Phase == -1 otherwise.
type Node struct {
	F     *Frame
	Instr ssa.Instruction
	Phase int
}

// Exit is the pseudo node reached when the root frame returns.
var Exit = Node{}

// IsExit reports whether n is the exit pseudo node.
func (n Node) IsExit() bool { return n.F == nil }

// Graph configures the expansion.
type Graph struct {
	P        *core.Program
	MaxDepth int
	// Expand decides whether a callee is inlined (default: library function with a body).
	Expand func(callee *ssa.Function, site ssa.CallInstruction) bool
	// Dynamic: resolve non-static calls through VTA when exactly one library callee exists.
	Dynamic bool
	// PruneEdge: if it returns true the CFG edge from `iff` to successor index idx is not followed.
	PruneEdge func(f *Frame, iff *ssa.If, idx int) bool
	// Learn switches on the path-learned facts of FindPath (exponential in the number of tests of stable values
	// on a path: for small graphs only).
	Learn bool
	// pathCells: during a path search, what the path being extended last stored into each tracked local cell
	// (error-typed cells with several stores); consulted by ErrEdgeOnPath
	pathCells map[cellKey]ssa.Value
	// per-graph caches (never global: a global map keyed by SSA objects keeps every loaded program alive)
	cycleCache   map[*ssa.BasicBlock]bool
	trackedCache map[*ssa.Alloc]bool
	Root  *Frame
}

// New creates a graph rooted at fn.
func New(p *core.Program, fn *ssa.Function, depth int) *Graph {
	g := &Graph{P: p, MaxDepth: depth}
	g.Root = &Frame{Fn: fn, G: g, kids: map[frameKey]*Frame{}}
	return g
}

// Entry is the first node of the root function.
func (g *Graph) Entry() Node { return g.first(g.Root, g.Root.Fn.Blocks[0]) }

func (g *Graph) first(f *Frame, b *ssa.BasicBlock) Node {
	return Node{F: f, Instr: b.Instrs[0], Phase: -1}
}

func (g *Graph) child(f *Frame, site ssa.CallInstruction, phase int, fn *ssa.Function) *Frame {
	k := frameKey{site, phase, fn}
	if c := f.kids[k]; c != nil {
		return c
	}
	c := &Frame{Fn: fn, Parent: f, Site: site, Phase: phase, Depth: f.Depth + 1, G: f.G, kids: map[frameKey]*Frame{}}
	f.kids[k] = c
	return c
}

// Callee returns the function a call node will enter (nil if not expanded).
func (g *Graph) Callee(f *Frame, site ssa.CallInstruction) *ssa.Function {
	if _, isGo := site.(*ssa.Go); isGo {
		return nil
	}
	cc := site.Common()
	var callee *ssa.Function
	if fn := cc.StaticCallee(); fn != nil {
		callee = fn
	} else if mc, ok := cc.Value.(*ssa.MakeClosure); ok {
		callee = mc.Fn.(*ssa.Function)
	} else if g.Dynamic {
		var lib []*ssa.Function
		for _, c := range g.P.Callees(site) {
			if g.P.InLib(c) && c.Blocks != nil {
				lib = append(lib, c)
			}
		}
		if len(lib) == 1 {
			callee = lib[0]
		}
	}
	if callee == nil || callee.Blocks == nil || !g.P.InLib(callee) {
		return nil
	}
	if f.Depth >= g.MaxDepth {
		return nil
	}
	for x := f; x != nil; x = x.Parent {
		if x.Fn == callee {
			return nil // recursion
		}
	}
	if g.Expand != nil && !g.Expand(callee, site) {
		return nil
	}
	return callee
}

// deferList returns the deferred calls that may have been registered when rd runs,
// in execution order (reverse registration), with definite[i] telling whether the
// defer dominates rd.
func deferList(rd *ssa.RunDefers) (list []*ssa.Defer, definite []bool) {
	fn := rd.Parent()
	var all []*ssa.Defer
	for _, b := range fn.Blocks {
		for _, in := range b.Instrs {
			if d, ok := in.(*ssa.Defer); ok {
				all = append(all, d)
			}
		}
	}
	for i := len(all) - 1; i >= 0; i-- {
		d := all[i]
		dom := d.Block() == rd.Block() && ir.InstrIndex(d) < ir.InstrIndex(rd) || d.Block() != rd.Block() && d.Block().Dominates(rd.Block())
		if dom {
			list = append(list, d)
			definite = append(definite, true)
		} else if ir.CanReach(d, rd) {
			list = append(list, d)
			definite = append(definite, false)
		}
	}
	return
}

// after returns the node(s) following instruction in within frame f.
func (g *Graph) after(f *Frame, in ssa.Instruction) []Node {
	b := in.Block()
	i := ir.InstrIndex(in)
	if i+1 < len(b.Instrs) {
		return []Node{{F: f, Instr: b.Instrs[i+1], Phase: -1}}
	}
	return nil
}

// afterDeferred continues the RunDefers sequence.
func (g *Graph) afterPhase(f *Frame, rd *ssa.RunDefers, phase int) []Node {
	list, _ := deferList(rd)
	if phase+1 < len(list) {
		return []Node{{F: f, Instr: rd, Phase: phase + 1}}
	}
	return g.after(f, rd)
}

// ret returns the continuation of frame f returning.
func (g *Graph) ret(f *Frame) []Node {
	if f.Parent == nil {
		return []Node{Exit}
	}
	if f.RD != nil {
		return g.afterPhase(f.Parent, f.RD, f.Phase)
	}
	return g.after(f.Parent, f.Site)
}

// Succ returns the successors of n.
func (g *Graph) Succ(n Node) []Node {
	if n.IsExit() {
		return nil
	}
	f := n.F
	switch x := n.Instr.(type) {
	case *ssa.RunDefers:
		list, definite := deferList(x)
		if len(list) == 0 {
			return g.after(f, x)
		}
		ph := n.Phase
		if ph < 0 {
			ph = 0
		}
		d := list[ph]
		var out []Node
		if callee := g.Callee(f, d); callee != nil {
			k := frameKey{x, ph, callee}
			c := f.kids[k]
			if c == nil {
				c = &Frame{Fn: callee, Parent: f, Site: d, Phase: ph, RD: x, Depth: f.Depth + 1, G: f.G, kids: map[frameKey]*Frame{}}
				f.kids[k] = c
			}
			out = append(out, g.first(c, callee.Blocks[0]))
		} else {
			out = append(out, g.afterPhase(f, x, ph)...)
		}
		if !definite[ph] {
			out = append(out, g.afterPhase(f, x, ph)...)
		}
		return out
	case *ssa.Return:
		if out, ok := g.correlatedReturn(f, x); ok {
			return out
		}
		return g.ret(f)
	case *ssa.Panic:
		return nil
	case *ssa.If:
		var out []Node
		for idx, s := range x.Block().Succs {
			if g.deadByConstArg(f, x, idx) {
				continue
			}
			if g.PruneEdge != nil && g.PruneEdge(f, x, idx) {
				continue
			}
			out = append(out, g.first(f, s))
		}
		return out
	case *ssa.Jump:
		return []Node{g.first(f, x.Block().Succs[0])}
	case *ssa.Call:
		if callee := g.Callee(f, x); callee != nil {
			c := g.child(f, x, -1, callee)
			return []Node{g.first(c, callee.Blocks[0])}
		}
		if isNoReturn(x) {
			return nil
		}
		return g.after(f, x)
	default:
		return g.after(f, x)
	}
}

func isNoReturn(c *ssa.Call) bool {
	if f := c.Common().StaticCallee(); f != nil {
		if f.Pkg != nil && f.Pkg.Pkg.Path() == "os" && f.Name() == "Exit" {
			return true
		}
		if f.Pkg != nil && f.Pkg.Pkg.Path() == "runtime" && f.Name() == "Goexit" {
			return true
		}
	}
	return false
}

// DeferredCall returns the deferred call executing at a RunDefers phase node.
func DeferredCall(n Node) *ssa.Defer {
	rd, ok := n.Instr.(*ssa.RunDefers)
	if !ok {
		return nil
	}
	list, _ := deferList(rd)
	ph := n.Phase
	if ph < 0 {
		ph = 0
	}
	if ph < len(list) {
		return list[ph]
	}
	return nil
}

// CallAt returns the call instruction that executes at node n: a plain call, or
// the deferred call being run at a RunDefers phase. Defer/Go statements
// themselves (registration) are not calls.
func CallAt(n Node) ssa.CallInstruction {
	if n.IsExit() {
		return nil
	}
	switch x := n.Instr.(type) {
	case *ssa.Call:
		return x
	case *ssa.RunDefers:
		if d := DeferredCall(n); d != nil {
			return d
		}
	}
	return nil
}

// FindPath searches a path from any of `from` to a node satisfying target that
// does not pass (strictly between) a node satisfying avoid. Returns nil if none.
func (g *Graph) FindPath(from []Node, avoid func(Node) bool, target func(Node) bool) []Node {
	// A search state is a node plus what the path has learned about values that cannot change within one
	// activation of their function (parameters and free variables compared with nil, boolean parameters): an If
	// testing such a value again is followed only along the edge that agrees, so a guard split into two
	// consecutive ifs (`if err != nil && cb != nil {..}; if err != nil && cb == nil {..}`) is one guard.
	type fid struct {
		f *Frame
		v ssa.Value
	}
	type key struct {
		f     *Frame
		in    ssa.Instruction
		phase int
		facts string
		cells string
	}
	type state struct {
		n     Node
		facts string // sorted "<id>=<0|1>;" entries
		cells string // sorted "<cell id>=<value id>;" entries: last store into tracked cells on this path
	}
	cellIDs := map[cellKey]int{}
	var cellOf []cellKey
	valIDs := map[ssa.Value]int{}
	var valOf []ssa.Value
	setCell := func(cells string, ck cellKey, v ssa.Value) string {
		ci, ok := cellIDs[ck]
		if !ok {
			ci = len(cellOf)
			cellIDs[ck] = ci
			cellOf = append(cellOf, ck)
		}
		vi, ok := valIDs[v]
		if !ok {
			vi = len(valOf)
			valIDs[v] = vi
			valOf = append(valOf, v)
		}
		pre := fmt.Sprintf("%04d=", ci)
		var parts []string
		for _, e := range strings.SplitAfter(cells, ";") {
			if e != "" && !strings.HasPrefix(e, pre) {
				parts = append(parts, e)
			}
		}
		parts = append(parts, fmt.Sprintf("%s%05d;", pre, vi))
		sort.Strings(parts)
		return strings.Join(parts, "")
	}
	decodeCells := func(cells string) map[cellKey]ssa.Value {
		if cells == "" {
			return nil
		}
		out := map[cellKey]ssa.Value{}
		for _, e := range strings.SplitAfter(cells, ";") {
			var ci, vi int
			if _, err := fmt.Sscanf(e, "%04d=%05d;", &ci, &vi); err == nil {
				out[cellOf[ci]] = valOf[vi]
			}
		}
		return out
	}
	dropCells := func(cells string, f *Frame) string {
		if cells == "" {
			return cells
		}
		var keep []string
		for _, e := range strings.SplitAfter(cells, ";") {
			var ci, vi int
			if _, err := fmt.Sscanf(e, "%04d=%05d;", &ci, &vi); err != nil {
				continue
			}
			own := false
			for a := cellOf[ci].f; a != nil; a = a.Parent {
				if a == f {
					own = true
				}
			}
			if !own {
				keep = append(keep, e)
			}
		}
		return strings.Join(keep, "")
	}
	phiCells := func(cells string, f *Frame, pred, succ *ssa.BasicBlock) string {
		for _, in := range succ.Instrs {
			ph, ok := in.(*ssa.Phi)
			if !ok {
				break
			}
			if !isErrorType(ph.Type()) || len(ph.Edges) < 2 || g.onCycle(succ) {
				continue
			}
			for i, p := range succ.Preds {
				if p == pred && i < len(ph.Edges) && errSource(ph.Edges[i]) != nil {
					cells = setCell(cells, cellKey{f: f, ph: ph}, ph.Edges[i])
				}
			}
		}
		return cells
	}
	defer func() { g.pathCells = nil }()
	ids := map[fid]int{}
	var idOwner []*Frame
	idOf := func(f *Frame, v ssa.Value) int {
		k := fid{f, v}
		if id, ok := ids[k]; ok {
			return id
		}
		ids[k] = len(idOwner)
		idOwner = append(idOwner, f)
		return len(idOwner) - 1
	}
	lookup := func(facts string, id int) (bool, bool) {
		pre := fmt.Sprintf("%04d=", id)
		i := strings.Index(facts, pre)
		if i < 0 {
			return false, false
		}
		return facts[i+len(pre)] == '1', true
	}
	add := func(facts string, id int, val bool) string {
		e := fmt.Sprintf("%04d=0;", id)
		if val {
			e = fmt.Sprintf("%04d=1;", id)
		}
		parts := strings.SplitAfter(facts, ";")
		parts = append(parts[:len(parts)-1], e)
		sort.Strings(parts)
		return strings.Join(parts, "")
	}
	dropFrame := func(facts string, f *Frame) string {
		if facts == "" {
			return facts
		}
		var keep []string
		for _, e := range strings.SplitAfter(facts, ";") {
			if e == "" {
				continue
			}
			var id int
			fmt.Sscanf(e, "%04d", &id)
			own := false
			for a := idOwner[id]; a != nil; a = a.Parent {
				if a == f {
					own = true
					break
				}
			}
			if !own {
				keep = append(keep, e)
			}
		}
		return strings.Join(keep, "")
	}
	// target and avoid are asked once per node (callers collect nodes in them)
	type nkey struct {
		f     *Frame
		in    ssa.Instruction
		phase int
	}
	tcache := map[nkey]bool{}
	origTarget := target
	target = func(n Node) bool {
		k := nkey{n.F, n.Instr, n.Phase}
		if r, ok := tcache[k]; ok {
			return r
		}
		r := origTarget(n)
		tcache[k] = r
		return r
	}
	if avoid != nil {
		acache := map[nkey]bool{}
		origAvoid := avoid
		avoid = func(n Node) bool {
			k := nkey{n.F, n.Instr, n.Phase}
			if r, ok := acache[k]; ok {
				return r
			}
			r := origAvoid(n)
			acache[k] = r
			return r
		}
	}
	prev := map[key]*state{}
	seen := map[key]bool{}
	var queue []state
	kf := func(s state) key { return key{s.n.F, s.n.Instr, s.n.Phase, s.facts, s.cells} }
	for _, n := range from {
		s := state{n, "", ""}
		if !seen[kf(s)] {
			seen[kf(s)] = true
			queue = append(queue, s)
		}
	}
	for len(queue) > 0 {
		cur := queue[0]
		queue = queue[1:]
		n := cur.n
		if target(n) {
			var path []Node
			c := &cur
			for c != nil {
				path = append([]Node{c.n}, path...)
				c = prev[kf(*c)]
			}
			return path
		}
		if n.IsExit() {
			continue
		}
		if avoid != nil && avoid(n) {
			continue
		}
		// what this path last stored into the tracked cells: for the edge decisions made below
		g.pathCells = decodeCells(cur.cells)
		cells := cur.cells
		if st, ok := n.Instr.(*ssa.Store); ok {
			if al, ok := st.Addr.(*ssa.Alloc); ok && g.trackedCell(al) {
				cells = setCell(cells, cellKey{f: n.F, al: al}, st.Val)
			}
		}
		if iff, ok := n.Instr.(*ssa.If); ok {
			var v ssa.Value
			whenTrue, ok := false, false
			if g.Learn {
				v, whenTrue, ok = g.stableTest(iff.Cond)
			}
			// a test of an error variable is a test of the call result the path stored there last: two tests of
			// the same result agree (always on: such tests are few)
			if v2, wt, ok2 := g.errCellTest(n.F, iff.Cond); ok2 {
				v, whenTrue, ok = v2, wt, true
			}
			if ok {
				id := idOf(n.F, v)
				for idx, sb := range iff.Block().Succs {
					if g.deadByConstArg(n.F, iff, idx) {
						continue
					}
					if g.PruneEdge != nil && g.PruneEdge(n.F, iff, idx) {
						continue
					}
					val := whenTrue == (idx == 0)
					facts := cur.facts
					if known, ok := lookup(facts, id); ok {
						if known != val {
							continue
						}
					} else {
						facts = add(facts, id, val)
					}
					s := state{g.first(n.F, sb), facts, phiCells(cur.cells, n.F, iff.Block(), sb)}
					if !seen[kf(s)] {
						seen[kf(s)] = true
						cc := cur
						prev[kf(s)] = &cc
						queue = append(queue, s)
					}
				}
				continue
			}
		}
		for _, sn := range g.Succ(n) {
			facts := cur.facts
			cs := cells
			if sn.F != n.F && sn.F != nil && sn.F.Parent == n.F {
				// a new activation of the callee: what an earlier activation learned does not carry over
				if facts != "" {
					facts = dropFrame(facts, sn.F)
				}
				cs = dropCells(cs, sn.F)
			}
			// an edge into a block with error-typed phis: remember what this edge carries
			switch n.Instr.(type) {
			case *ssa.If, *ssa.Jump:
				if sn.F == n.F && sn.Instr != nil && sn.Instr.Block() != n.Instr.Block() {
					cs = phiCells(cs, n.F, n.Instr.Block(), sn.Instr.Block())
				}
			}
			s := state{sn, facts, cs}
			if !seen[kf(s)] {
				seen[kf(s)] = true
				cc := cur
				prev[kf(s)] = &cc
				queue = append(queue, s)
			}
		}
	}
	return nil
}

// deadByConstArg: the branch tests a boolean parameter of an inlined callee for which the call site of this frame
// passes a constant (`s.setConnect(msg, true)`): the edge for the other value cannot be taken in this frame.
func (g *Graph) deadByConstArg(f *Frame, iff *ssa.If, idx int) bool {
	if f == nil || f.Site == nil {
		return false
	}
	cond := iff.Cond
	truth := idx == 0
	for i := 0; i < 4; i++ {
		if u, ok := cond.(*ssa.UnOp); ok && u.Op == token.NOT {
			cond, truth = u.X, !truth
			continue
		}
		break
	}
	p, ok := cond.(*ssa.Parameter)
	if !ok || p.Parent() != f.Fn {
		return false
	}
	args := f.Site.Common().Args
	if f.Site.Common().IsInvoke() {
		return false
	}
	for i, q := range f.Fn.Params {
		if q != p || i >= len(args) {
			continue
		}
		k, ok := args[i].(*ssa.Const)
		if !ok || k.Value == nil || k.Value.Kind() != constant.Bool {
			return false
		}
		return constant.BoolVal(k.Value) != truth
	}
	return false
}

// onCycle: b can reach itself.
func (g *Graph) onCycle(b *ssa.BasicBlock) bool {
	if g.cycleCache == nil {
		g.cycleCache = map[*ssa.BasicBlock]bool{}
	}
	if r, ok := g.cycleCache[b]; ok {
		return r
	}
	seen := map[*ssa.BasicBlock]bool{}
	work := append([]*ssa.BasicBlock(nil), b.Succs...)
	r := false
	for len(work) > 0 && !r {
		x := work[len(work)-1]
		work = work[:len(work)-1]
		if x == b {
			r = true
			break
		}
		if seen[x] {
			continue
		}
		seen[x] = true
		work = append(work, x.Succs...)
	}
	g.cycleCache[b] = r
	return r
}

type cellKey struct {
	f  *Frame
	al *ssa.Alloc
	// ph: instead of a local cell, an error-typed phi: what the path's edge into the phi's block carried
	ph *ssa.Phi
}

// trackedCell: a local cell of type error with more than one store.
func (g *Graph) trackedCell(al *ssa.Alloc) bool {
	if g.trackedCache == nil {
		g.trackedCache = map[*ssa.Alloc]bool{}
	}
	if r, ok := g.trackedCache[al]; ok {
		return r
	}
	r := false
	if pt, ok := al.Type().Underlying().(*types.Pointer); ok && isErrorType(pt.Elem()) && al.Referrers() != nil {
		n := 0
		for _, ref := range *al.Referrers() {
			if st, ok := ref.(*ssa.Store); ok && st.Addr == ssa.Value(al) {
				n++
			}
		}
		r = n >= 2
	}
	g.trackedCache[al] = r
	return r
}

// errCellTest: cond (through negations) compares with nil an error loaded from a local cell; returns the value the
// path stored there last (a store earlier in the block, or the tracked cell's content) when that value is computed
// once per activation, and the truth of "value != nil" when cond is true.
func (g *Graph) errCellTest(f *Frame, cond ssa.Value) (ssa.Value, bool, bool) {
	truth := true
	for i := 0; i < 4; i++ {
		if u, ok := cond.(*ssa.UnOp); ok && u.Op == token.NOT {
			cond, truth = u.X, !truth
			continue
		}
		break
	}
	b, ok := cond.(*ssa.BinOp)
	if !ok || (b.Op != token.EQL && b.Op != token.NEQ) {
		return nil, false, false
	}
	var x ssa.Value
	if isNilConst(b.Y) {
		x = b.X
	} else if isNilConst(b.X) {
		x = b.Y
	} else {
		return nil, false, false
	}
	if ph, isPhi := x.(*ssa.Phi); isPhi && isErrorType(ph.Type()) && g.pathCells != nil {
		v := g.pathCells[cellKey{f: f, ph: ph}]
		in, isInstr := v.(ssa.Instruction)
		if v == nil || !isInstr || in.Block() == nil || g.onCycle(in.Block()) {
			return nil, false, false
		}
		if b.Op == token.EQL {
			truth = !truth
		}
		return v, truth, true
	}
	u, isLoad := x.(*ssa.UnOp)
	if !isLoad || u.Op != token.MUL || !isErrorType(u.Type()) {
		return nil, false, false
	}
	al, isAl := u.X.(*ssa.Alloc)
	if !isAl {
		return nil, false, false
	}
	var v ssa.Value
	// a store earlier in the same block decides
	blk := u.Block()
	for i := ir.InstrIndex(u) - 1; i >= 0 && v == nil; i-- {
		if st, ok := blk.Instrs[i].(*ssa.Store); ok && st.Addr == ssa.Value(al) {
			v = st.Val
		}
	}
	if v == nil && g.pathCells != nil {
		v = g.pathCells[cellKey{f: f, al: al}]
	}
	if v == nil {
		return nil, false, false
	}
	in, isInstr := v.(ssa.Instruction)
	if !isInstr || in.Block() == nil || g.onCycle(in.Block()) {
		return nil, false, false
	}
	if b.Op == token.EQL {
		truth = !truth
	}
	return v, truth, true
}

// ErrEdgeOnPath: as ErrEdge; when the tested error is loaded from a tracked cell, the call whose error result the
// path being searched stored there last. Meaningful only inside a PruneEdge callback.
func (f *Frame) ErrEdgeOnPath(iff *ssa.If, idx int) (call *ssa.Call, nonNil bool, ok bool) {
	if c, nn, ok := ErrEdge(iff, idx); ok {
		return c, nn, ok
	}
	if f == nil || f.G == nil || f.G.pathCells == nil {
		return nil, false, false
	}
	b, isBin := iff.Cond.(*ssa.BinOp)
	if !isBin || (b.Op != token.NEQ && b.Op != token.EQL) {
		return nil, false, false
	}
	var x ssa.Value
	if isNilConst(b.Y) {
		x = b.X
	} else if isNilConst(b.X) {
		x = b.Y
	} else {
		return nil, false, false
	}
	if ph, isPhi := x.(*ssa.Phi); isPhi {
		if v, have := f.G.pathCells[cellKey{f: f, ph: ph}]; have {
			if c := errSource(v); c != nil {
				return c, (b.Op == token.NEQ) == (idx == 0), true
			}
		}
		return nil, false, false
	}
	u, isLoad := x.(*ssa.UnOp)
	if !isLoad || u.Op != token.MUL {
		return nil, false, false
	}
	al, isAl := u.X.(*ssa.Alloc)
	if !isAl {
		return nil, false, false
	}
	// a store between the load and the start of its block decides locally (ErrEdge did not find one)
	v, have := f.G.pathCells[cellKey{f: f, al: al}]
	if !have {
		return nil, false, false
	}
	c := errSource(v)
	if c == nil {
		return nil, false, false
	}
	nonNil = (b.Op == token.NEQ) == (idx == 0)
	return c, nonNil, true
}

// stableTest: cond (through negations) compares a parameter or free variable with nil, or is a boolean
// parameter or free variable; returns the value and the truth of "v != nil" / "v" when cond is true.
func (g *Graph) stableTest(cond ssa.Value) (ssa.Value, bool, bool) {
	truth := true
	for i := 0; i < 4; i++ {
		if u, ok := cond.(*ssa.UnOp); ok && u.Op == token.NOT {
			cond, truth = u.X, !truth
			continue
		}
		break
	}
	stable := func(v ssa.Value) bool {
		switch x := v.(type) {
		case *ssa.Parameter, *ssa.FreeVar:
			return true
		case ssa.Instruction:
			// computed once per activation: the defining block is on no cycle
			return x.Block() != nil && !g.onCycle(x.Block())
		}
		return false
	}
	b, ok := cond.(*ssa.BinOp)
	if !ok {
		if stable(cond) {
			return cond, truth, true
		}
		return nil, false, false
	}
	if b.Op != token.EQL && b.Op != token.NEQ {
		return nil, false, false
	}
	var o ssa.Value
	if c, ok := b.Y.(*ssa.Const); ok && c.IsNil() {
		o = b.X
	} else if c, ok := b.X.(*ssa.Const); ok && c.IsNil() {
		o = b.Y
	}
	if o == nil || !stable(o) {
		return nil, false, false
	}
	if b.Op == token.EQL {
		truth = !truth
	}
	return o, truth, true
}

// All enumerates every reachable node (for collecting events).
func (g *Graph) All() []Node {
	var out []Node
	type nk struct {
		f     *Frame
		in    ssa.Instruction
		phase int
	}
	seen := map[nk]bool{}
	g.FindPath([]Node{g.Entry()}, nil, func(n Node) bool {
		if k := (nk{n.F, n.Instr, n.Phase}); !n.IsExit() && !seen[k] {
			seen[k] = true
			out = append(out, n)
		}
		return false
	})
	return out
}

// Describe renders a path compactly: only calls, branches and the end points.
func (g *Graph) Describe(path []Node) []string {
	var out []string
	for i, n := range path {
		if n.IsExit() {
			out = append(out, "exit: return from "+core.FuncName(g.Root.Fn))
			continue
		}
		show := i == 0 || i == len(path)-1
		switch n.Instr.(type) {
		case *ssa.If, *ssa.Return, *ssa.Call, *ssa.RunDefers:
			show = true
		}
		if !show {
			continue
		}
		ind := ""
		for d := 0; d < n.F.Depth; d++ {
			ind += "  "
		}
		s := n.Instr.String()
		if iff, ok := n.Instr.(*ssa.If); ok && i+1 < len(path) && !path[i+1].IsExit() {
			br := "else"
			if len(iff.Block().Succs) > 0 && path[i+1].Instr.Block() == iff.Block().Succs[0] {
				br = "then"
			}
			s = fmt.Sprintf("if %s -> %s", condString(iff.Cond), br)
		}
		if d := DeferredCall(n); d != nil {
			s = "deferred " + d.Common().String()
		}
		out = append(out, fmt.Sprintf("%s%s  %s: %s", ind, g.P.InstrPos(n.Instr), core.FuncName(n.F.Fn), s))
	}
	if len(out) > 40 {
		out = append(out[:20], append([]string{"..."}, out[len(out)-19:]...)...)
	}
	return out
}

func condString(v ssa.Value) string {
	if b, ok := v.(*ssa.BinOp); ok {
		return fmt.Sprintf("%s %s %s", short(b.X), b.Op, short(b.Y))
	}
	return short(v)
}

func short(v ssa.Value) string {
	switch x := v.(type) {
	case *ssa.Const:
		return x.String()
	case *ssa.Call:
		return x.Common().String()
	case *ssa.Extract:
		return fmt.Sprintf("%s#%d", short(x.Tuple), x.Index)
	}
	return v.Name()
}

// ErrEdge: if the edge (iff, succ idx) is taken exactly when the error result of
// a call is non-nil, return that call.
func ErrEdge(iff *ssa.If, idx int) (call *ssa.Call, nonNil bool, ok bool) {
	b, isBin := iff.Cond.(*ssa.BinOp)
	if !isBin || (b.Op != token.NEQ && b.Op != token.EQL) {
		return nil, false, false
	}
	var x ssa.Value
	if isNilConst(b.Y) {
		x = b.X
	} else if isNilConst(b.X) {
		x = b.Y
	} else {
		return nil, false, false
	}
	if !isErrorType(x.Type()) {
		return nil, false, false
	}
	c := errSource(x)
	if c == nil {
		return nil, false, false
	}
	// idx 0 = then (cond true), 1 = else
	condTrue := idx == 0
	nonNil = (b.Op == token.NEQ) == condTrue
	return c, nonNil, true
}

func errSource(x ssa.Value) *ssa.Call {
	switch v := x.(type) {
	case *ssa.Call:
		return v
	case *ssa.Extract:
		if c, ok := v.Tuple.(*ssa.Call); ok {
			return c
		}
	case *ssa.UnOp:
		if v.Op == token.MUL {
			if s := ir.SingleStore(v.X); s != nil {
				return errSource(s)
			}
			if s := ir.LocalLoadValue(v); s != nil {
				return errSource(s)
			}
		}
	}
	return nil
}

func isNilConst(v ssa.Value) bool {
	c, ok := v.(*ssa.Const)
	return ok && c.IsNil()
}

var errType = types.Universe.Lookup("error").Type()

func isErrorType(t types.Type) bool { return types.Identical(t, errType) }

// IsErrorType is exported.
func IsErrorType(t types.Type) bool { return isErrorType(t) }

// errOutcome classifies the error operand of a return: +1 definitely non-nil, -1 definitely nil, 0 unknown.
func errOutcome(ret *ssa.Return) int {
	fn := ret.Parent()
	res := fn.Signature.Results()
	if res.Len() == 0 || !isErrorType(res.At(res.Len()-1).Type()) {
		return 0
	}
	v := ir.ReturnOperand(ret, res.Len()-1)
	if v == nil {
		return 0
	}
	if isNilConst(v) {
		return -1
	}
	if c, ok := v.(*ssa.Call); ok {
		if f := c.Common().StaticCallee(); f != nil && f.Pkg != nil {
			if p := f.Pkg.Pkg.Path(); (p == "fmt" && f.Name() == "Errorf") || (p == "errors" && f.Name() == "New") {
				return +1
			}
		}
	}
	if mi, ok := v.(*ssa.MakeInterface); ok {
		_ = mi
		return +1
	}
	src := errSource(v)
	if src == nil {
		return 0
	}
	// a dominating test of the same error value
	for d := ret.Block(); d != nil && d.Idom() != nil; d = d.Idom() {
		id := d.Idom()
		iff, ok := id.Instrs[len(id.Instrs)-1].(*ssa.If)
		if !ok {
			continue
		}
		for idx, sb := range id.Succs {
			if (sb == d || sb.Dominates(d)) && len(sb.Preds) == 1 {
				if call, nonNil, ok := ErrEdge(iff, idx); ok && call == src {
					if nonNil {
						return +1
					}
					return -1
				}
			}
		}
	}
	return 0
}

// correlatedReturn: when an inlined callee returns an error that is definitely nil (or
// definitely non-nil) and the caller tests that error right after the call (only pure
// instructions in between), the return continues on the matching edge of that test
// instead of on both: `if err := helper(); err != nil { return err }` then behaves like
// the helper's body written in place.
func (g *Graph) correlatedReturn(f *Frame, ret *ssa.Return) ([]Node, bool) {
	if f.Parent == nil || f.RD != nil {
		return nil, false
	}
	site, ok := f.Site.(*ssa.Call)
	if !ok {
		return nil, false
	}
	oc := errOutcome(ret)
	if oc == 0 {
		return nil, false
	}
	b := site.Block()
	for i := ir.InstrIndex(site) + 1; i < len(b.Instrs); i++ {
		switch x := b.Instrs[i].(type) {
		case *ssa.Extract, *ssa.BinOp, *ssa.UnOp, *ssa.DebugRef:
			continue
		case *ssa.Store:
			// the results parked in local cells (a named result captured by a deferred closure)
			if _, local := x.Addr.(*ssa.Alloc); local {
				continue
			}
			return nil, false
		case *ssa.If:
			for idx := range b.Succs {
				call, nonNil, ok := ErrEdge(x, idx)
				if !ok || call != site {
					return nil, false
				}
				if nonNil == (oc > 0) {
					if g.PruneEdge != nil && g.PruneEdge(f.Parent, x, idx) {
						return nil, true
					}
					return []Node{g.first(f.Parent, b.Succs[idx])}, true
				}
			}
			return nil, false
		default:
			return nil, false
		}
	}
	return nil, false
}
