package locks

import (
	"go/types"
	"sort"
	"strings"

	"golang.org/x/tools/go/ssa"

	"verif/internal/core"
	"verif/internal/engine/effects"
	"verif/internal/ir"
)

// Monitor is a struct type with condition variables and the facts inferred
// about it from the code.
type Monitor struct {
	Type  *types.Named
	Conds []string // cond field names

	// per cond field
	Waits      map[string][]*WaitLoop            // wait loops on the cond
	Broadcasts map[string][]CondOp               // broadcast/signal sites
	Waiters    map[string]map[*ssa.Function]bool // W*(c): functions on one monitor object that reach a Wait on c
	Pred       map[string]map[string]bool        // monitor-relative locations the wait tests read
	Own        map[string]map[string]bool        // locations stored by W*(c)
	Foreign    map[string]map[string]bool        // Pred \ Own

	// functions whose monitor accesses are rooted at a *Monitor parameter
	Domain map[*ssa.Function]bool
	// monitor-relative locations stored somewhere outside constructors
	Mutable map[string]bool
	// Responsible[f]: locations f is the innermost monitor-aware writer of
	Responsible map[*ssa.Function]map[string]bool
	// Role[c]: the side of cond c = its waiters plus every other writer of their locations
	Role map[string]map[*ssa.Function]bool
}

// RelTo returns the monitor-relative location ("pseq.cursor") of a path that
// passes through an object of type m, and whether it does.
func RelTo(p ir.Path, m *types.Named) (string, bool) {
	idx := -1
	for i, o := range p.Owners {
		if o != nil && types.Identical(o, m) {
			idx = i
		}
	}
	if idx < 0 {
		return "", false
	}
	return strings.Join(p.Fields[idx:], "."), true
}

// rootIsMonitorParam: the path's first owner is m and the root is a parameter
// or a value of type *m (one monitor object through one handle).
func rootIsMonitorParam(p ir.Path, m *types.Named) bool {
	if len(p.Owners) == 0 || p.Owners[0] == nil || !types.Identical(p.Owners[0], m) {
		return false
	}
	_, ok := p.Root.(*ssa.Parameter)
	return ok
}

// FindMonitors infers the monitor tables of every struct with *sync.Cond fields.
func FindMonitors(p *core.Program, lk *Analysis, eff *effects.Analysis) []*Monitor {
	var mons []*Monitor
	var names []string
	for n := range p.SPkgs {
		names = append(names, n)
	}
	sort.Strings(names)
	for _, pn := range names {
		sp := p.SPkgs[pn]
		scope := sp.Pkg.Scope()
		for _, name := range scope.Names() {
			tn, ok := scope.Lookup(name).(*types.TypeName)
			if !ok {
				continue
			}
			named, ok := tn.Type().(*types.Named)
			if !ok {
				continue
			}
			st, ok := named.Underlying().(*types.Struct)
			if !ok {
				continue
			}
			var conds []string
			for i := 0; i < st.NumFields(); i++ {
				if ir.TypeIs(st.Field(i).Type(), "sync", "Cond") {
					conds = append(conds, st.Field(i).Name())
				}
			}
			if len(conds) == 0 {
				continue
			}
			mons = append(mons, buildMonitor(p, lk, eff, named, conds))
		}
	}
	return mons
}

func condField(p ir.Path, m *types.Named) (string, bool) {
	rel, ok := RelTo(p, m)
	if !ok {
		return "", false
	}
	return rel, true
}

func buildMonitor(p *core.Program, lk *Analysis, eff *effects.Analysis, named *types.Named, conds []string) *Monitor {
	m := &Monitor{Type: named, Conds: conds,
		Waits: map[string][]*WaitLoop{}, Broadcasts: map[string][]CondOp{},
		Waiters: map[string]map[*ssa.Function]bool{}, Pred: map[string]map[string]bool{},
		Own: map[string]map[string]bool{}, Foreign: map[string]map[string]bool{},
		Domain: map[*ssa.Function]bool{}, Role: map[string]map[*ssa.Function]bool{}}
	for _, c := range conds {
		m.Waiters[c] = map[*ssa.Function]bool{}
		m.Pred[c] = map[string]bool{}
		m.Own[c] = map[string]bool{}
		m.Foreign[c] = map[string]bool{}
	}
	// domain: functions with a *M parameter
	for _, fn := range p.Funcs {
		for _, prm := range fn.Params {
			if ir.TypeIs(prm.Type(), named.Obj().Pkg().Path(), named.Obj().Name()) {
				m.Domain[fn] = true
			}
		}
	}
	// cond ops
	for _, fn := range p.Funcs {
		for _, op := range CondOps(fn) {
			c, ok := condField(op.Cond, named)
			if !ok {
				// a helper that is handed the condition variable (`wakeAll(c *sync.Cond)`): its broadcast counts for every
				// cond of the monitor a caller passes; L4 is judged inside the helper (the lock is the parameter's L)
				if prm, isPrm := op.Cond.Root.(*ssa.Parameter); isPrm && len(op.Cond.Fields) == 0 && op.Kind != CondWait {
					idx := -1
					for i, q := range fn.Params {
						if q == prm {
							idx = i
						}
					}
					seenC := map[string]bool{}
					for _, site := range p.Callers(fn) {
						if idx < 0 || idx >= len(site.Common().Args) {
							continue
						}
						if c2, ok2 := condField(ir.PathOf(site.Common().Args[idx]), named); ok2 && !seenC[c2] {
							seenC[c2] = true
							m.Broadcasts[c2] = append(m.Broadcasts[c2], op)
						}
					}
				}
				continue
			}
			switch op.Kind {
			case CondWait:
				wl := FindWaitLoop(fn, op, eff)
				m.Waits[c] = append(m.Waits[c], wl)
				if m.Domain[fn] {
					m.Waiters[c][fn] = true
				}
				for _, pr := range wl.PredReads {
					if rel, ok := RelTo(pr.Path, named); ok {
						m.Pred[c][rel] = true
					}
				}
			default:
				m.Broadcasts[c] = append(m.Broadcasts[c], op)
			}
		}
	}
	// W*(c): closure over static calls within the domain, passing the same object
	for _, c := range conds {
		for changed := true; changed; {
			changed = false
			for fn := range m.Domain {
				if m.Waiters[c][fn] {
					continue
				}
				for _, call := range ir.Calls(fn) {
					if _, isGo := call.(*ssa.Go); isGo {
						continue
					}
					callee := call.Common().StaticCallee()
					if callee != nil && m.Waiters[c][callee] {
						m.Waiters[c][fn] = true
						changed = true
					}
				}
			}
		}
	}
	// Responsible[f]: monitor-relative locations f stores itself or through a callee
	// in whose frame the location is not monitor-relative (a setter on a sub-object).
	m.Responsible = map[*ssa.Function]map[string]bool{}
	for _, fn := range p.Funcs {
		inf := eff.Funcs[fn]
		if inf == nil {
			continue
		}
		for _, ac := range inf.Accesses {
			if !ac.Write || ac.Fresh {
				continue
			}
			rel, ok := RelTo(ac.Path, named)
			if !ok {
				continue
			}
			if !ac.Direct && ac.Via != nil && calleeStoresRel(eff, ac.Via, named, rel) {
				continue
			}
			if m.Responsible[fn] == nil {
				m.Responsible[fn] = map[string]bool{}
			}
			m.Responsible[fn][rel] = true
		}
	}
	for _, c := range conds {
		// Own(c): locations responsibly stored by W*(c); every other responsible writer
		// of such a location belongs to the same side (single producer / single consumer).
		for fn := range m.Waiters[c] {
			for rel := range m.Responsible[fn] {
				m.Own[c][rel] = true
			}
		}
		// private helpers of this side: unexported domain functions called by a waiter of c and by no waiter of
		// another cond (a store of the side's own cursor moved into `advanceConsumer`): their stores are the side's
		helpers := map[*ssa.Function]bool{}
		for changed := true; changed; {
			changed = false
			for fn := range m.Domain {
				if m.Waiters[c][fn] || helpers[fn] || fn.Object() == nil || fn.Object().Exported() || len(m.Responsible[fn]) == 0 {
					continue
				}
				mine, other := false, false
				for _, site := range p.Callers(fn) {
					caller := site.Parent()
					if m.Waiters[c][caller] || helpers[caller] {
						mine = true
					}
					for _, c2 := range conds {
						if c2 != c && m.Waiters[c2][caller] && !m.Waiters[c][caller] {
							other = true
						}
					}
				}
				if mine && !other {
					helpers[fn] = true
					changed = true
				}
			}
		}
		for fn := range helpers {
			for rel := range m.Responsible[fn] {
				m.Own[c][rel] = true
			}
		}
		m.Role[c] = map[*ssa.Function]bool{}
		for fn := range m.Waiters[c] {
			m.Role[c][fn] = true
		}
		for fn := range helpers {
			m.Role[c][fn] = true
		}
		// a function that calls a helper of this side acts for this side
		for fn := range m.Domain {
			for _, call := range ir.Calls(fn) {
				if callee := call.Common().StaticCallee(); callee != nil && helpers[callee] {
					m.Role[c][fn] = true
				}
			}
		}
		for fn, locs := range m.Responsible {
			if !m.Domain[fn] {
				continue
			}
			for rel := range locs {
				if m.Own[c][rel] {
					m.Role[c][fn] = true
				}
			}
		}
	}
	// locations with at least one store outside constructors (root not freshly allocated)
	m.Mutable = map[string]bool{}
	for _, fn := range p.Funcs {
		inf := eff.Funcs[fn]
		if inf == nil {
			continue
		}
		for _, ac := range inf.Accesses {
			if !ac.Write || ac.Fresh || !ac.Direct && false {
				continue
			}
			if rel, ok := RelTo(ac.Path, named); ok {
				m.Mutable[rel] = true
			}
		}
	}
	for _, c := range conds {
		for loc := range m.Pred[c] {
			if m.Mutable[loc] && !m.Own[c][loc] {
				m.Foreign[c][loc] = true
			}
		}
	}
	return m
}

// SortedKeys of a string set.
func SortedKeys(m map[string]bool) []string {
	var out []string
	for k := range m {
		out = append(out, k)
	}
	sort.Strings(out)
	return out
}

// calleeStoresRel: the callee's own summary already names the location relative to the monitor.
func calleeStoresRel(eff *effects.Analysis, callee *ssa.Function, m *types.Named, rel string) bool {
	inf := eff.Funcs[callee]
	if inf == nil {
		return false
	}
	for _, ac := range inf.Accesses {
		if !ac.Write {
			continue
		}
		if r, ok := RelTo(ac.Path, m); ok && r == rel {
			return true
		}
	}
	return false
}
