package locks

import (
	"go/token"
	"go/types"
	"sort"

	"golang.org/x/tools/go/ssa"

	"verif/internal/engine/effects"
	"verif/internal/ir"
)

// CondOpKind is Wait, Broadcast or Signal.
type CondOpKind int

const (
	CondWait CondOpKind = iota
	CondBroadcast
	CondSignal
)

func (k CondOpKind) String() string { return [...]string{"Wait", "Broadcast", "Signal"}[k] }

// CondOp is a call on a *sync.Cond.
type CondOp struct {
	Instr ssa.CallInstruction
	Kind  CondOpKind
	Cond  ir.Path // path of the cond object
}

// LockPath is the path of the cond's L.
func (c CondOp) LockPath() ir.Path {
	p := c.Cond
	np := ir.Path{Root: p.Root, Opaque: p.Opaque}
	np.Fields = append(append([]string{}, p.Fields...), "L")
	np.Owners = append(append([]*types.Named{}, p.Owners...), nil)
	return np
}

// CondOpOf classifies one call instruction.
func CondOpOf(c ssa.CallInstruction) (CondOp, bool) {
	cc := c.Common()
	f := cc.StaticCallee()
	if f == nil || f.Signature.Recv() == nil || !ir.TypeIs(f.Signature.Recv().Type(), "sync", "Cond") {
		return CondOp{}, false
	}
	var k CondOpKind
	switch f.Name() {
	case "Wait":
		k = CondWait
	case "Broadcast":
		k = CondBroadcast
	case "Signal":
		k = CondSignal
	default:
		return CondOp{}, false
	}
	return CondOp{Instr: c, Kind: k, Cond: ir.PathOf(cc.Args[0])}, true
}

// CondOps lists the condition-variable operations of fn.
func CondOps(fn *ssa.Function) []CondOp {
	var out []CondOp
	for _, c := range ir.Calls(fn) {
		if op, ok := CondOpOf(c); ok {
			out = append(out, op)
		}
	}
	return out
}

// WaitLoop describes the loop around a Wait.
type WaitLoop struct {
	Wait  CondOp
	Loop  *ir.Loop
	Tests []*ssa.If // conditional branches inside the loop with a successor outside it or deciding to reach Wait
	// PredReads: the instructions (loads, atomic loads, getter calls) the tests depend on,
	// with the location read (translated to this function's frame)
	PredReads []PredRead
}

// PredRead is one read feeding a wait-loop test.
type PredRead struct {
	Instr  ssa.Instruction
	Path   ir.Path
	Atomic bool
}

// FindWaitLoop locates the innermost natural loop containing the Wait and the
// reads its tests depend on. eff supplies getter summaries.
func FindWaitLoop(fn *ssa.Function, w CondOp, eff *effects.Analysis) *WaitLoop {
	loops := ir.Loops(fn)
	l := ir.InnermostLoop(loops, w.Instr.Block())
	wl := &WaitLoop{Wait: w, Loop: l}
	if l == nil {
		return wl
	}
	// tests: every If in the loop from which the Wait block is reachable within the loop
	// on one side only, or that has a successor outside the loop
	var bs []*ssa.BasicBlock
	for b := range l.Blocks {
		bs = append(bs, b)
	}
	sort.Slice(bs, func(i, j int) bool { return bs[i].Index < bs[j].Index })
	for _, b := range bs {
		if len(b.Instrs) == 0 {
			continue
		}
		iff, ok := b.Instrs[len(b.Instrs)-1].(*ssa.If)
		if !ok {
			continue
		}
		exits := false
		for _, s := range b.Succs {
			if !l.Blocks[s] {
				exits = true
			}
		}
		if exits {
			wl.Tests = append(wl.Tests, iff)
		}
	}
	seen := map[ssa.Value]bool{}
	var walk func(v ssa.Value)
	walk = func(v ssa.Value) {
		if v == nil || seen[v] {
			return
		}
		seen[v] = true
		switch x := v.(type) {
		case *ssa.BinOp:
			walk(x.X)
			walk(x.Y)
		case *ssa.UnOp:
			if x.Op == token.MUL {
				if s := ir.SingleStore(x.X); s != nil {
					walk(s)
					return
				}
				wl.PredReads = append(wl.PredReads, PredRead{Instr: x, Path: ir.PathOf(x.X)})
				return
			}
			walk(x.X)
		case *ssa.Phi:
			for _, e := range x.Edges {
				walk(e)
			}
		case *ssa.Convert:
			walk(x.X)
		case *ssa.ChangeType:
			walk(x.X)
		case *ssa.Call:
			cc := x.Common()
			if addr, _, ok := effects.AtomicOp(cc); ok {
				wl.PredReads = append(wl.PredReads, PredRead{Instr: x, Path: ir.PathOf(addr), Atomic: true})
				return
			}
			callee := cc.StaticCallee()
			if callee == nil {
				return
			}
			if sum := eff.Funcs[callee]; sum != nil {
				for _, ac := range sum.Accesses {
					if ac.Write {
						continue
					}
					if np, ok := effects.Translate(ac.Path, callee, cc.Args); ok {
						wl.PredReads = append(wl.PredReads, PredRead{Instr: x, Path: np, Atomic: ac.Atomic})
					}
				}
			}
			for _, a := range cc.Args {
				walk(a)
			}
		case *ssa.Extract:
			walk(x.Tuple)
		}
	}
	for _, t := range wl.Tests {
		walk(t.Cond)
	}
	return wl
}
