// Package locks is engine L: must/may lockset dataflow over go/ssa with
// callee summaries, deferred unlocks and deferred closures.
package locks

import (
	"fmt"
	"sort"
	"strings"

	"golang.org/x/tools/go/ssa"

	"verif/internal/core"
	"verif/internal/ir"
)

// Mode of a held lock.
type Mode int

const (
	Excl Mode = iota
	Shared
)

// Held is one lock held.
type Held struct {
	// AtExit: a deferred unlock of this lock was registered while it was definitely held: the lock is released when
	// the function returns on every path through here, also when the defer sits in a branch
	AtExit bool
	Path   ir.Path
	Mode   Mode
	// Tainted: inherited from a callee that is itself reported for this lock
	// (held on some of its exits only, or held after releasing): not re-reported.
	Tainted bool
	// At is the instruction in the current function that acquired it (a Lock
	// call or a call to an acquiring callee).
	At ssa.Instruction
}

// Key identifies the lock instance (root value identity + field path).
func Key(p ir.Path) string {
	root := "?"
	if p.Root != nil {
		fn := ""
		if p.Root.Parent() != nil {
			fn = core.FuncName(p.Root.Parent())
		}
		root = fn + ":" + ir.RootName(p.Root)
		if _, isParam := p.Root.(*ssa.Parameter); !isParam {
			if _, isFV := p.Root.(*ssa.FreeVar); !isFV {
				if _, isG := p.Root.(*ssa.Global); !isG {
					root = fn + ":" + p.Root.Name()
				}
			}
		}
	}
	return root + "." + strings.Join(p.Fields, ".")
}

// Set of held locks by Key.
type Set map[string]Held

func (s Set) clone() Set {
	c := Set{}
	for k, v := range s {
		c[k] = v
	}
	return c
}

// Classes lists the lock classes in the set, sorted.
func (s Set) Classes() []string {
	var out []string
	for _, h := range s {
		out = append(out, h.Path.Class())
	}
	sort.Strings(out)
	return out
}

// HasClass reports whether a lock of the class is in the set.
func (s Set) HasClass(c string) bool {
	for _, h := range s {
		if h.Path.Class() == c {
			return true
		}
	}
	return false
}

// HasPath reports whether exactly this lock instance is in the set.
func (s Set) HasPath(p ir.Path) bool {
	_, ok := s[Key(p)]
	return ok
}

func (s Set) String() string {
	var out []string
	for _, h := range s {
		m := ""
		if h.Mode == Shared {
			m = "(R)"
		}
		out = append(out, h.Path.String()+m)
	}
	sort.Strings(out)
	return "{" + strings.Join(out, ", ") + "}"
}

// State is the lock state at a program point.
type State struct {
	Must, May Set
	valid     bool
}

func equalSets(a, b Set) bool {
	if len(a) != len(b) {
		return false
	}
	for k := range a {
		if _, ok := b[k]; !ok {
			return false
		}
	}
	return true
}

// OpKind of a lock operation.
type OpKind int

const (
	OpLock OpKind = iota
	OpUnlock
	OpRLock
	OpRUnlock
)

func (k OpKind) String() string { return [...]string{"Lock", "Unlock", "RLock", "RUnlock"}[k] }

// Op is a lock operation call site.
type Op struct {
	Instr    ssa.CallInstruction
	Kind     OpKind
	Path     ir.Path
	Deferred bool
}

// RetState is the lock state at a return.
type RetState struct {
	Ret   *ssa.Return
	State State
}

// Problem is a local anomaly found during the dataflow.
type Problem struct {
	Instr ssa.Instruction
	Text  string
}

// FuncInfo is the per-function result.
type FuncInfo struct {
	Fn       *ssa.Function
	Before   map[ssa.Instruction]State
	Rets     []RetState
	Ops      []Op
	Problems []Problem
	// summaries (paths rooted at parameters, free variables or globals)
	NetMay  []Held // may additionally be held at some return
	NetMust []Held // additionally held at every return
	Rel     []Held // released although not acquired here (requires-held)
	// Released: keys of locks released somewhere in the function (own or via callee)
	Released map[string]bool
	sumKey   string
}

// Analysis is engine L's result for the whole program.
type Analysis struct {
	P     *core.Program
	Funcs map[*ssa.Function]*FuncInfo
}

// LockOp classifies a call as a lock operation.
func LockOp(c *ssa.CallCommon) (OpKind, ir.Path, bool) {
	var name string
	var recv ssa.Value
	if c.IsInvoke() {
		if !ir.TypeIs(c.Value.Type(), "sync", "Locker") {
			return 0, ir.Path{}, false
		}
		name = c.Method.Name()
		recv = c.Value
	} else {
		f := c.StaticCallee()
		if f == nil || f.Signature.Recv() == nil || len(c.Args) == 0 {
			return 0, ir.Path{}, false
		}
		rt := f.Signature.Recv().Type()
		if !ir.TypeIs(rt, "sync", "Mutex") && !ir.TypeIs(rt, "sync", "RWMutex") {
			return 0, ir.Path{}, false
		}
		name = f.Name()
		recv = c.Args[0]
	}
	var k OpKind
	switch name {
	case "Lock":
		k = OpLock
	case "Unlock":
		k = OpUnlock
	case "RLock":
		k = OpRLock
	case "RUnlock":
		k = OpRUnlock
	default:
		return 0, ir.Path{}, false
	}
	return k, ir.PathOf(recv), true
}

// Analyze runs the lockset dataflow over all library functions.
func Analyze(p *core.Program) *Analysis {
	a := &Analysis{P: p, Funcs: map[*ssa.Function]*FuncInfo{}}
	for round := 0; round < 8; round++ {
		changed := false
		for _, fn := range p.Funcs {
			fi := a.analyzeFunc(fn)
			old := a.Funcs[fn]
			if old == nil || old.sumKey != fi.sumKey {
				changed = true
			}
			a.Funcs[fn] = fi
		}
		if !changed {
			break
		}
	}
	return a
}

func (a *Analysis) apply(st *State, k OpKind, path ir.Path, definite bool, fi *FuncInfo, at ssa.Instruction) {
	key := Key(path)
	switch k {
	case OpLock, OpRLock:
		mode := Excl
		if k == OpRLock {
			mode = Shared
		}
		if _, held := st.Must[key]; held && k == OpLock {
			fi.Problems = append(fi.Problems, Problem{at, fmt.Sprintf("Lock of %s while it is already held (self-deadlock)", path)})
		}
		st.May[key] = Held{Path: path, Mode: mode, At: at}
		if definite {
			st.Must[key] = Held{Path: path, Mode: mode, At: at}
		}
	case OpUnlock, OpRUnlock:
		fi.Released[key] = true
		if _, held := st.May[key]; !held {
			fi.Rel = append(fi.Rel, Held{Path: path, Mode: Excl})
		}
		if definite {
			delete(st.May, key)
		}
		delete(st.Must, key)
	}
}

// translate maps a callee-rooted path to the caller at a call site.
func translate(h Held, callee *ssa.Function, args []ssa.Value) (Held, bool) {
	root := h.Path.Root
	switch r := root.(type) {
	case *ssa.Parameter:
		if r.Parent() != callee {
			// a parameter of an enclosing function (closure saw through a spilled cell): identity
			return h, true
		}
		for i, prm := range callee.Params {
			if prm == r && i < len(args) {
				ap := ir.PathOf(args[i])
				np := ir.Path{Root: ap.Root, Opaque: ap.Opaque || h.Path.Opaque}
				np.Fields = append(append([]string{}, ap.Fields...), h.Path.Fields...)
				np.Owners = append(append(np.Owners, ap.Owners...), h.Path.Owners...)
				return Held{Path: np, Mode: h.Mode, Tainted: h.Tainted}, true
			}
		}
		return h, false
	case *ssa.Global:
		return h, true
	default:
		return h, true // freevar / alloc of an enclosing function: identity
	}
}

func (a *Analysis) applyCall(st *State, c ssa.CallInstruction, definite bool, fi *FuncInfo) {
	cc := c.Common()
	if k, path, ok := LockOp(cc); ok {
		a.apply(st, k, path, definite, fi, c)
		return
	}
	var callee *ssa.Function
	args := cc.Args
	if f := cc.StaticCallee(); f != nil {
		callee = f
	} else if mc, ok := cc.Value.(*ssa.MakeClosure); ok {
		callee = mc.Fn.(*ssa.Function)
	}
	if callee == nil {
		return
	}
	sum := a.Funcs[callee]
	if sum == nil {
		return
	}
	for _, h := range sum.Rel {
		if t, ok := translate(h, callee, args); ok {
			a.apply(st, OpUnlock, t.Path, definite, fi, c)
		}
	}
	for _, h := range sum.NetMay {
		t, ok := translate(h, callee, args)
		if !ok {
			continue
		}
		must := false
		for _, m := range sum.NetMust {
			if Key(m.Path) == Key(h.Path) {
				must = true
			}
		}
		key := Key(t.Path)
		t.At = c
		// a callee that holds the lock on some exits only, or holds it after having
		// released it, is reported itself: do not cascade the report to its callers
		if !must || sum.Released[Key(h.Path)] || h.Tainted {
			t.Tainted = true
		}
		if old, ok := st.May[key]; ok && !old.Tainted {
			t.Tainted = false
		}
		st.May[key] = t
		if must && definite {
			st.Must[key] = t
		}
	}
}

func (a *Analysis) analyzeFunc(fn *ssa.Function) *FuncInfo {
	fi := &FuncInfo{Fn: fn, Before: map[ssa.Instruction]State{}, Released: map[string]bool{}}
	if len(fn.Blocks) == 0 {
		return fi
	}
	in := make([]State, len(fn.Blocks))
	in[0] = State{Must: Set{}, May: Set{}, valid: true}
	var defers []*ssa.Defer
	for _, b := range fn.Blocks {
		for _, ins := range b.Instrs {
			if d, ok := ins.(*ssa.Defer); ok {
				defers = append(defers, d)
			}
		}
	}
	// iterate to fixpoint
	for iter := 0; iter < 50; iter++ {
		changed := false
		fi.Problems = nil
		fi.Rel = nil
		fi.Released = map[string]bool{}
		fi.Rets = nil
		fi.Ops = nil
		for _, b := range fn.Blocks {
			if !in[b.Index].valid {
				continue
			}
			st := State{Must: in[b.Index].Must.clone(), May: in[b.Index].May.clone(), valid: true}
			for _, ins := range b.Instrs {
				fi.Before[ins] = State{Must: st.Must.clone(), May: st.May.clone(), valid: true}
				switch x := ins.(type) {
				case *ssa.Call:
					if k, path, ok := LockOp(x.Common()); ok {
						fi.Ops = append(fi.Ops, Op{Instr: x, Kind: k, Path: path})
					}
					a.applyCall(&st, x, true, fi)
				case *ssa.Defer:
					if k, path, ok := LockOp(x.Common()); ok {
						fi.Ops = append(fi.Ops, Op{Instr: x, Kind: k, Path: path, Deferred: true})
						if k == OpUnlock || k == OpRUnlock {
							key := Key(path)
							if h, held := st.Must[key]; held {
								h.AtExit = true
								st.Must[key] = h
								if m, ok := st.May[key]; ok {
									m.AtExit = true
									st.May[key] = m
								}
							}
						}
					}
				case *ssa.RunDefers:
					for i := len(defers) - 1; i >= 0; i-- {
						d := defers[i]
						if d.Block() == b && ir.InstrIndex(d) < ir.InstrIndex(x) || d.Block() != b && d.Block().Dominates(b) {
							a.applyCall(&st, d, true, fi)
						} else if ir.CanReach(d, x) {
							// a defer in a branch: on the paths through it the lock was marked; on the others there
							// is nothing to release
							if k, path, ok := LockOp(d.Common()); ok && (k == OpUnlock || k == OpRUnlock) {
								key := Key(path)
								if m, held := st.May[key]; held && m.AtExit {
									fi.Released[key] = true
									delete(st.May, key)
									delete(st.Must, key)
									continue
								}
								if _, held := st.May[key]; !held {
									continue
								}
							}
							a.applyCall(&st, d, false, fi)
						}
					}
				case *ssa.Return:
					fi.Rets = append(fi.Rets, RetState{x, State{Must: st.Must.clone(), May: st.May.clone(), valid: true}})
				}
			}
			for _, s := range b.Succs {
				t := &in[s.Index]
				if !t.valid {
					*t = State{Must: st.Must.clone(), May: st.May.clone(), valid: true}
					changed = true
					continue
				}
				// must = intersection, may = union
				for k := range t.Must {
					if _, ok := st.Must[k]; !ok {
						delete(t.Must, k)
						changed = true
					}
				}
				for k, v := range st.May {
					if old, ok := t.May[k]; !ok {
						t.May[k] = v
						changed = true
					} else if old.Tainted && !v.Tainted {
						t.May[k] = v
						changed = true
					} else if old.AtExit && !v.AtExit {
						old.AtExit = false
						t.May[k] = old
						changed = true
					}
				}
			}
		}
		if !changed {
			break
		}
	}
	// summaries
	mayAll := Set{}
	var mustAll Set
	for _, r := range fi.Rets {
		for k, v := range r.State.May {
			if old, ok := mayAll[k]; !ok || old.Tainted && !v.Tainted {
				mayAll[k] = v
			}
		}
		if mustAll == nil {
			mustAll = r.State.Must.clone()
		} else {
			for k := range mustAll {
				if _, ok := r.State.Must[k]; !ok {
					delete(mustAll, k)
				}
			}
		}
	}
	var keys []string
	for k, v := range mayAll {
		fi.NetMay = append(fi.NetMay, v)
		keys = append(keys, fmt.Sprintf("may:%s:%v", k, v.Tainted))
	}
	for k := range fi.Released {
		keys = append(keys, "released:"+k)
	}
	for k, v := range mustAll {
		fi.NetMust = append(fi.NetMust, v)
		keys = append(keys, "must:"+k)
	}
	// dedupe Rel
	relSeen := map[string]bool{}
	var rel []Held
	for _, h := range fi.Rel {
		if !relSeen[Key(h.Path)] {
			relSeen[Key(h.Path)] = true
			rel = append(rel, h)
			keys = append(keys, "rel:"+Key(h.Path))
		}
	}
	fi.Rel = rel
	sort.Strings(keys)
	fi.sumKey = strings.Join(keys, "|")
	return fi
}

// HeldBefore returns the lock state right before the instruction.
func (a *Analysis) HeldBefore(in ssa.Instruction) (State, bool) {
	fi := a.Funcs[in.Parent()]
	if fi == nil {
		return State{}, false
	}
	st, ok := fi.Before[in]
	return st, ok
}
