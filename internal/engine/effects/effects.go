// Package effects computes per-function load/store summaries over access
// paths (mod/ref), direct and through static callees, including sync/atomic.
package effects

import (
	"go/token"
	"sort"
	"strings"

	"golang.org/x/tools/go/ssa"

	"verif/internal/core"
	"verif/internal/ir"
)

// Access is one load or store of a location.
type Access struct {
	Path   ir.Path
	Write  bool
	Atomic bool
	Instr  ssa.Instruction // the instruction in the function where it happens (a call for callee effects)
	Direct bool            // performed by this function's own instruction
	Via    *ssa.Function   // callee through which it happens (nil if direct)
	// Fresh: the root object was allocated in this function (constructor-style access)
	Fresh bool
}

// Key is root-relative: "param#i.f.g" | "global:pkg.name.f" | "other".
func (a Access) Key() string { return relKey(a.Path) }

func relKey(p ir.Path) string {
	r := "other"
	switch x := p.Root.(type) {
	case *ssa.Parameter:
		r = "param:" + x.Name()
		for i, q := range x.Parent().Params {
			if q == x {
				r = "param#" + string(rune('0'+i))
			}
		}
	case *ssa.Global:
		r = "global:" + x.Pkg.Pkg.Name() + "." + x.Name()
	case *ssa.FreeVar:
		r = "free:" + x.Name()
	case *ssa.Alloc:
		r = "alloc:" + x.Name()
	}
	return r + "." + strings.Join(p.Fields, ".")
}

// Info is the result for one function.
type Info struct {
	Fn       *ssa.Function
	Accesses []Access // direct and transitive, deduplicated per (instr,key,write)
	sumKey   string
}

// Analysis holds the summaries of all library functions.
type Analysis struct {
	P     *core.Program
	Funcs map[*ssa.Function]*Info
}

// AtomicOp classifies a call to sync/atomic: returns the address operand and
// whether it writes.
func AtomicOp(c *ssa.CallCommon) (addr ssa.Value, write bool, ok bool) {
	f := c.StaticCallee()
	if f == nil || f.Pkg == nil || f.Pkg.Pkg.Path() != "sync/atomic" {
		return nil, false, false
	}
	if f.Signature.Recv() != nil {
		// atomic.Int64 etc methods: receiver is the location
		n := f.Name()
		w := !(n == "Load")
		return c.Args[0], w, true
	}
	n := f.Name()
	switch {
	case strings.HasPrefix(n, "Load"):
		return c.Args[0], false, true
	case strings.HasPrefix(n, "Store"), strings.HasPrefix(n, "Add"), strings.HasPrefix(n, "Swap"),
		strings.HasPrefix(n, "CompareAndSwap"), strings.HasPrefix(n, "And"), strings.HasPrefix(n, "Or"):
		return c.Args[0], true, true
	}
	return nil, false, false
}

// Analyze computes the summaries to a fixpoint.
func Analyze(p *core.Program) *Analysis {
	a := &Analysis{P: p, Funcs: map[*ssa.Function]*Info{}}
	for round := 0; round < 10; round++ {
		changed := false
		for _, fn := range p.Funcs {
			inf := a.analyzeFunc(fn)
			if old := a.Funcs[fn]; old == nil || old.sumKey != inf.sumKey {
				changed = true
			}
			a.Funcs[fn] = inf
		}
		if !changed {
			break
		}
	}
	return a
}

func isFresh(root ssa.Value) bool {
	switch x := root.(type) {
	case *ssa.Alloc:
		return true
	case *ssa.Call:
		// result of a constructor-like call is not "fresh in this function" in general
		_ = x
		return false
	}
	return false
}

func (a *Analysis) analyzeFunc(fn *ssa.Function) *Info {
	inf := &Info{Fn: fn}
	seen := map[string]bool{}
	add := func(ac Access) {
		k := ac.Key()
		w := "r"
		if ac.Write {
			w = "w"
		}
		id := k + "|" + w + "|" + a.P.InstrPos(ac.Instr) + "|" + ac.Instr.String()
		if seen[id] {
			return
		}
		seen[id] = true
		ac.Fresh = isFresh(ac.Path.Root)
		inf.Accesses = append(inf.Accesses, ac)
	}
	for _, b := range fn.Blocks {
		for _, ins := range b.Instrs {
			switch x := ins.(type) {
			case *ssa.Store:
				add(Access{Path: ir.PathOf(x.Addr), Write: true, Instr: x, Direct: true})
			case *ssa.UnOp:
				if x.Op == token.MUL {
					// skip loads of spilled local cells
					if al, ok := x.X.(*ssa.Alloc); ok && !al.Heap {
						continue
					}
					add(Access{Path: ir.PathOf(x.X), Write: false, Instr: x, Direct: true})
				}
			case *ssa.MapUpdate:
				p := ir.PathOf(x.Map)
				p.Fields = append(append([]string{}, p.Fields...), "[]")
				p.Owners = append(append(p.Owners[:len(p.Owners):len(p.Owners)], nil))
				p.Opaque = true
				add(Access{Path: p, Write: true, Instr: x, Direct: true})
			case *ssa.Lookup:
				p := ir.PathOf(x.X)
				p.Fields = append(append([]string{}, p.Fields...), "[]")
				p.Owners = append(append(p.Owners[:len(p.Owners):len(p.Owners)], nil))
				p.Opaque = true
				add(Access{Path: p, Write: false, Instr: x, Direct: true})
			case ssa.CallInstruction:
				cc := x.Common()
				if addr, w, ok := AtomicOp(cc); ok {
					add(Access{Path: ir.PathOf(addr), Write: w, Atomic: true, Instr: x, Direct: true})
					if w {
						add(Access{Path: ir.PathOf(addr), Write: false, Atomic: true, Instr: x, Direct: true})
					}
					continue
				}
				// builtin delete(m,k) writes the map; append/copy write their target's elements
				if bi, ok := cc.Value.(*ssa.Builtin); ok {
					switch bi.Name() {
					case "delete":
						p := ir.PathOf(cc.Args[0])
						p.Fields = append(append([]string{}, p.Fields...), "[]")
						p.Owners = append(append(p.Owners[:len(p.Owners):len(p.Owners)], nil))
						p.Opaque = true
						add(Access{Path: p, Write: true, Instr: x, Direct: true})
					case "copy":
						p := ir.PathOf(cc.Args[0])
						p.Fields = append(append([]string{}, p.Fields...), "[]")
						p.Owners = append(append(p.Owners[:len(p.Owners):len(p.Owners)], nil))
						p.Opaque = true
						add(Access{Path: p, Write: true, Instr: x, Direct: true})
					}
					continue
				}
				if _, isGo := x.(*ssa.Go); isGo {
					continue
				}
				var callee *ssa.Function
				if f := cc.StaticCallee(); f != nil {
					callee = f
				} else if mc, ok := cc.Value.(*ssa.MakeClosure); ok {
					callee = mc.Fn.(*ssa.Function)
				}
				if callee == nil {
					continue
				}
				sum := a.Funcs[callee]
				if sum == nil {
					continue
				}
				for _, ca := range sum.Accesses {
					np, ok := Translate(ca.Path, callee, cc.Args)
					if !ok {
						continue
					}
					via := callee
					add(Access{Path: np, Write: ca.Write, Atomic: ca.Atomic, Instr: x, Direct: false, Via: via})
				}
			}
		}
	}
	var keys []string
	ks := map[string]bool{}
	for _, ac := range inf.Accesses {
		// only param/global/free-rooted accesses matter to callers
		k := ac.Key()
		if strings.HasPrefix(k, "other") || strings.HasPrefix(k, "alloc:") {
			continue
		}
		w := "r"
		if ac.Write {
			w = "w"
		}
		if ac.Atomic {
			w += "a"
		}
		ks[k+"|"+w] = true
	}
	for k := range ks {
		keys = append(keys, k)
	}
	sort.Strings(keys)
	inf.sumKey = strings.Join(keys, ";")
	return inf
}

// Translate maps a callee-rooted path to the caller's frame.
func Translate(p ir.Path, callee *ssa.Function, args []ssa.Value) (ir.Path, bool) {
	switch r := p.Root.(type) {
	case *ssa.Parameter:
		if r.Parent() != callee {
			return p, true // enclosing function's parameter seen through a closure cell
		}
		for i, prm := range callee.Params {
			if prm == r && i < len(args) {
				ap := ir.PathOf(args[i])
				np := ir.Path{Root: ap.Root, Opaque: ap.Opaque || p.Opaque}
				np.Fields = append(append([]string{}, ap.Fields...), p.Fields...)
				np.Owners = append(append(np.Owners, ap.Owners...), p.Owners...)
				return np, true
			}
		}
		return p, false
	case *ssa.Global:
		return p, true
	case *ssa.FreeVar:
		return p, true
	}
	return p, false
}
