// Package bits is a known-bits abstract domain for the flag bytes of the codec:
// every bit of a value is 0, 1, a copy of bit i of the flags byte as it was on
// entry ("old i"), a copy of bit j of an integer parameter ("arg j"), or unknown.
// Expressions built from loads of the flags byte, constants, parameters and the
// bitwise operators are evaluated in this domain (no concrete execution, no
// enumeration of inputs), through static callees with a single return.
package bits

import (
	"go/constant"
	"go/token"
	"go/types"

	"golang.org/x/tools/go/ssa"
)

// Kind of an abstract bit.
type Kind uint8

const (
	Zero Kind = iota
	One
	Old // copy of bit Idx of the flags byte on entry
	Arg // copy of bit Idx of the tracked parameter
	Top // unknown
)

// Bit is one abstract bit.
type Bit struct {
	K   Kind
	Idx int
}

// Width of the vectors (flag fields are bytes; 16 leaves room for shifts).
const Width = 16

// Vec is an abstract integer, least significant bit first.
type Vec [Width]Bit

// Const builds the vector of a constant.
func Const(v uint64) Vec {
	var out Vec
	for i := 0; i < Width; i++ {
		if v>>uint(i)&1 == 1 {
			out[i] = Bit{K: One}
		}
	}
	return out
}

// OldByte is the flags byte on entry (bits 0..7), optionally pre-masked.
func OldByte() Vec {
	var out Vec
	for i := 0; i < 8; i++ {
		out[i] = Bit{K: Old, Idx: i}
	}
	return out
}

// ArgBits is a parameter known to fit into n bits.
func ArgBits(n int) Vec {
	var out Vec
	for i := 0; i < n && i < Width; i++ {
		out[i] = Bit{K: Arg, Idx: i}
	}
	return out
}

// TopVec is the unknown value.
func TopVec() Vec {
	var out Vec
	for i := range out {
		out[i] = Bit{K: Top}
	}
	return out
}

func and(a, b Bit) Bit {
	switch {
	case a.K == Zero || b.K == Zero:
		return Bit{K: Zero}
	case a.K == One:
		return b
	case b.K == One:
		return a
	case a == b && a.K != Top:
		return a
	}
	return Bit{K: Top}
}

func or(a, b Bit) Bit {
	switch {
	case a.K == One || b.K == One:
		return Bit{K: One}
	case a.K == Zero:
		return b
	case b.K == Zero:
		return a
	case a == b && a.K != Top:
		return a
	}
	return Bit{K: Top}
}

func not(a Bit) Bit {
	switch a.K {
	case Zero:
		return Bit{K: One}
	case One:
		return Bit{K: Zero}
	}
	return Bit{K: Top}
}

func xor(a, b Bit) Bit {
	switch {
	case a.K == Zero:
		return b
	case b.K == Zero:
		return a
	case a.K == One:
		return not(b)
	case b.K == One:
		return not(a)
	case a == b && a.K != Top:
		return Bit{K: Zero}
	}
	return Bit{K: Top}
}

func zip(a, b Vec, f func(Bit, Bit) Bit) Vec {
	var out Vec
	for i := range out {
		out[i] = f(a[i], b[i])
	}
	return out
}

func (v Vec) shl(n int) Vec {
	var out Vec
	for i := Width - 1; i >= 0; i-- {
		if i-n >= 0 {
			out[i] = v[i-n]
		}
	}
	return out
}

func (v Vec) shr(n int) Vec {
	var out Vec
	for i := 0; i < Width; i++ {
		if i+n < Width {
			out[i] = v[i+n]
		}
	}
	return out
}

// trunc keeps the low n bits.
func (v Vec) trunc(n int) Vec {
	for i := n; i < Width; i++ {
		v[i] = Bit{K: Zero}
	}
	return v
}

// Join is the least upper bound.
func Join(a, b Vec) Vec {
	var out Vec
	for i := range out {
		if a[i] == b[i] {
			out[i] = a[i]
		} else {
			out[i] = Bit{K: Top}
		}
	}
	return out
}

// Env tells the evaluator what the symbols are.
type Env struct {
	// IsFlags reports whether addr is the address of the flags byte.
	IsFlags func(addr ssa.Value) bool
	// Param is the tracked integer parameter (may be nil) and ParamBits its assumed width.
	Param     ssa.Value
	ParamBits int
	// bind maps parameters of inlined callees to caller values
	bind map[*ssa.Parameter]Vec
}

func constVal(c *ssa.Const) (uint64, bool) {
	if c.Value == nil || c.Value.Kind() != constant.Int {
		return 0, false
	}
	if u, ok := constant.Uint64Val(c.Value); ok {
		return u, true
	}
	if i, ok := constant.Int64Val(c.Value); ok {
		return uint64(i), true
	}
	return 0, false
}

func bitSize(t types.Type) int {
	if b, ok := t.Underlying().(*types.Basic); ok {
		switch b.Kind() {
		case types.Uint8, types.Int8:
			return 8
		}
	}
	return Width
}

// Bind gives a parameter (of an inlined helper) the value it has at the call site.
func (e *Env) Bind(p *ssa.Parameter, v Vec) {
	if e.bind == nil {
		e.bind = map[*ssa.Parameter]Vec{}
	}
	e.bind[p] = v
}

// Eval computes the abstract value of v.
func (e *Env) Eval(v ssa.Value) Vec { return e.eval(v, 0) }

func (e *Env) eval(v ssa.Value, depth int) Vec {
	if depth > 24 {
		return TopVec()
	}
	if e.Param != nil && v == e.Param {
		return ArgBits(e.ParamBits)
	}
	switch x := v.(type) {
	case *ssa.Const:
		if u, ok := constVal(x); ok {
			return Const(u).trunc(bitSize(x.Type()))
		}
	case *ssa.Parameter:
		if b, ok := e.bind[x]; ok {
			return b
		}
	case *ssa.UnOp:
		switch x.Op {
		case token.MUL:
			if e.IsFlags != nil && e.IsFlags(x.X) {
				return OldByte()
			}
			// an element of a package-level array of integer constants (a lookup table): the bits all its cells share
			if ia, ok := x.X.(*ssa.IndexAddr); ok {
				if g, ok := ia.X.(*ssa.Global); ok {
					if v, ok := tableJoin(g); ok {
						return v.trunc(bitSize(x.Type()))
					}
				}
			}
		case token.XOR: // bitwise complement
			in := e.eval(x.X, depth+1)
			var out Vec
			for i := range out {
				out[i] = not(in[i])
			}
			return out.trunc(bitSize(x.Type()))
		}
	case *ssa.BinOp:
		a := e.eval(x.X, depth+1)
		switch x.Op {
		case token.AND:
			return zip(a, e.eval(x.Y, depth+1), and)
		case token.OR:
			return zip(a, e.eval(x.Y, depth+1), or)
		case token.XOR:
			return zip(a, e.eval(x.Y, depth+1), xor)
		case token.AND_NOT:
			b := e.eval(x.Y, depth+1)
			for i := range b {
				b[i] = not(b[i])
			}
			return zip(a, b, and)
		case token.SHL, token.SHR:
			k, ok := x.Y.(*ssa.Const)
			if !ok {
				if cv, ok2 := x.Y.(*ssa.Convert); ok2 {
					k, ok = cv.X.(*ssa.Const)
				}
			}
			if ok {
				if n, ok := constVal(k); ok && n < Width {
					if x.Op == token.SHL {
						return a.shl(int(n)).trunc(bitSize(x.Type()))
					}
					return a.shr(int(n))
				}
			}
			// a shift count that is a parameter bound to a constant at the call site
			if cnt := e.eval(x.Y, depth+1); true {
				n, known := 0, true
				for i := range cnt {
					switch cnt[i].K {
					case One:
						if i < 8 {
							n |= 1 << uint(i)
						} else {
							known = false
						}
					case Zero:
					default:
						known = false
					}
				}
				if known && n < Width {
					if x.Op == token.SHL {
						return a.shl(n).trunc(bitSize(x.Type()))
					}
					return a.shr(n)
				}
			}
		}
	case *ssa.Convert:
		in := e.eval(x.X, depth+1)
		return in.trunc(bitSize(x.Type()))
	case *ssa.ChangeType:
		return e.eval(x.X, depth+1)
	case *ssa.Phi:
		out := e.eval(x.Edges[0], depth+1)
		for _, ed := range x.Edges[1:] {
			out = Join(out, e.eval(ed, depth+1))
		}
		return out
	case *ssa.Call:
		callee := x.Common().StaticCallee()
		if callee == nil || callee.Blocks == nil || x.Common().IsInvoke() {
			break
		}
		var ret *ssa.Return
		n := 0
		for _, b := range callee.Blocks {
			if r, ok := b.Instrs[len(b.Instrs)-1].(*ssa.Return); ok {
				ret = r
				n++
			}
		}
		if n != 1 || len(ret.Results) != 1 {
			break
		}
		old := e.bind
		nb := map[*ssa.Parameter]Vec{}
		for k, v := range old {
			nb[k] = v
		}
		for i, p := range callee.Params {
			if i < len(x.Common().Args) {
				if _, isInt := p.Type().Underlying().(*types.Basic); isInt {
					nb[p] = e.eval(x.Common().Args[i], depth+1)
				}
			}
		}
		e.bind = nb
		out := e.eval(ret.Results[0], depth+1)
		e.bind = old
		return out
	}
	return TopVec()
}

// tableJoin: the join of all cells of a package-level array of integers that the package initialiser fills with
// constants and nothing else writes (cells it does not store are zero).
func tableJoin(g *ssa.Global) (Vec, bool) {
	at, ok := g.Type().(*types.Pointer).Elem().Underlying().(*types.Array)
	if !ok || g.Pkg == nil {
		return Vec{}, false
	}
	if bt, ok := at.Elem().Underlying().(*types.Basic); !ok || bt.Info()&types.IsInteger == 0 {
		return Vec{}, false
	}
	init := g.Pkg.Func("init")
	if init == nil {
		return Vec{}, false
	}
	// written only by the initialiser
	if refs := g.Referrers(); refs != nil {
		for _, r := range *refs {
			ia, isIA := r.(*ssa.IndexAddr)
			if !isIA || ia.Referrers() == nil {
				continue
			}
			for _, r2 := range *ia.Referrers() {
				if st, isSt := r2.(*ssa.Store); isSt && st.Addr == ssa.Value(ia) && st.Parent() != init {
					return Vec{}, false
				}
			}
		}
	}
	stored := int64(0)
	out := Vec{}
	first := true
	for _, b := range init.Blocks {
		for _, in := range b.Instrs {
			st, ok := in.(*ssa.Store)
			if !ok {
				continue
			}
			ia, ok := st.Addr.(*ssa.IndexAddr)
			if !ok || ia.X != ssa.Value(g) {
				continue
			}
			k, ok := st.Val.(*ssa.Const)
			if !ok {
				return Vec{}, false
			}
			u, ok := constVal(k)
			if !ok {
				return Vec{}, false
			}
			stored++
			if first {
				out, first = Const(u), false
			} else {
				out = Join(out, Const(u))
			}
		}
	}
	if stored < at.Len() { // the rest of the cells are zero
		if first {
			out, first = Const(0), false
		} else {
			out = Join(out, Const(0))
		}
	}
	return out, !first
}
