// Package core holds the loader, the obligation model, evidence writing and the
// known-findings file handling shared by all property checks.
package core

import (
	"fmt"
	"go/token"
	"go/types"
	"os"
	"sort"
	"strings"

	"golang.org/x/tools/go/callgraph"
	"golang.org/x/tools/go/callgraph/cha"
	"golang.org/x/tools/go/callgraph/vta"
	"golang.org/x/tools/go/packages"
	"golang.org/x/tools/go/ssa"
	"golang.org/x/tools/go/ssa/ssautil"
)

// ModPath is the module path of the code under analysis.
const ModPath = "github.com/mdzio/go-mqtt"

// LibPkgs are the library packages that must load.
var LibPkgs = []string{"auth", "message", "service", "sessions", "topics"}

// Program is the loaded, type-checked and SSA-built repository.
type Program struct {
	Dir   string
	Fset  *token.FileSet
	Pkgs  map[string]*packages.Package // by short name (auth, message, ...)
	SSA   *ssa.Program
	SPkgs map[string]*ssa.Package
	CG    *callgraph.Graph // VTA
	CHA   *callgraph.Graph

	// all functions of the library packages (incl. anonymous ones), sorted
	Funcs []*ssa.Function

	GOARCH string
	Tags   string
}

// LoadConfig selects the build configuration analysed.
type LoadConfig struct {
	Dir    string
	GOARCH string // "" = default
	Tags   string
}

// Load loads dir (the repository root). It fails if any library package is
// missing or has errors: an unanalysable tree is never reported as held.
func Load(lc LoadConfig) (*Program, error) {
	env := []string{}
	for _, e := range os.Environ() {
		if strings.HasPrefix(e, "GOWORK=") || strings.HasPrefix(e, "GOFLAGS=") ||
			strings.HasPrefix(e, "GOPROXY=") || strings.HasPrefix(e, "GOSUMDB=") ||
			strings.HasPrefix(e, "GOTOOLCHAIN=") || strings.HasPrefix(e, "GOARCH=") {
			continue
		}
		env = append(env, e)
	}
	env = append(env, "GOWORK=off", "GOFLAGS=-mod=mod", "GOPROXY=off", "GOSUMDB=off", "GOTOOLCHAIN=local")
	if lc.GOARCH != "" {
		env = append(env, "GOARCH="+lc.GOARCH, "CGO_ENABLED=0")
	}
	cfg := &packages.Config{
		Mode:  packages.LoadAllSyntax,
		Dir:   lc.Dir,
		Env:   env,
		Tests: false,
	}
	if lc.Tags != "" {
		cfg.BuildFlags = []string{"-tags=" + lc.Tags}
	}
	pkgs, err := packages.Load(cfg, "./...")
	if err != nil {
		return nil, fmt.Errorf("packages.Load: %v", err)
	}
	p := &Program{Dir: lc.Dir, Pkgs: map[string]*packages.Package{}, SPkgs: map[string]*ssa.Package{}, GOARCH: lc.GOARCH, Tags: lc.Tags}
	var errs []string
	for _, pk := range pkgs {
		if !strings.HasPrefix(pk.PkgPath, ModPath+"/") {
			continue
		}
		short := strings.TrimPrefix(pk.PkgPath, ModPath+"/")
		for _, e := range pk.Errors {
			errs = append(errs, fmt.Sprintf("%s: %v", pk.PkgPath, e))
		}
		if len(pk.Syntax) == 0 {
			continue // test-only package (benchmark)
		}
		p.Pkgs[short] = pk
		p.Fset = pk.Fset
	}
	// dependency errors
	packages.Visit(pkgs, nil, func(pk *packages.Package) {
		if pk.IllTyped && strings.HasPrefix(pk.PkgPath, ModPath) {
			for _, e := range pk.Errors {
				errs = append(errs, fmt.Sprintf("%s: %v", pk.PkgPath, e))
			}
		}
	})
	if len(errs) > 0 {
		sort.Strings(errs)
		return nil, fmt.Errorf("load/type errors:\n  %s", strings.Join(errs, "\n  "))
	}
	for _, want := range LibPkgs {
		if p.Pkgs[want] == nil {
			return nil, fmt.Errorf("library package %q did not load", want)
		}
	}
	prog, spkgs := ssautil.AllPackages(pkgs, ssa.InstantiateGenerics)
	prog.Build()
	p.SSA = prog
	for i, sp := range spkgs {
		if sp == nil {
			continue
		}
		pp := pkgs[i].PkgPath
		if strings.HasPrefix(pp, ModPath+"/") {
			p.SPkgs[strings.TrimPrefix(pp, ModPath+"/")] = sp
		}
	}
	for _, want := range LibPkgs {
		if p.SPkgs[want] == nil {
			return nil, fmt.Errorf("no SSA for library package %q", want)
		}
	}
	all := ssautil.AllFunctions(prog)
	// AllFunctions omits methods that are never called nor reachable through an
	// interface (e.g. (*buffer).ID, (*service).readMessage): enumerate the declared
	// functions and methods of the library packages ourselves.
	var addFn func(fn *ssa.Function)
	lib := map[*ssa.Function]bool{}
	addFn = func(fn *ssa.Function) {
		if fn == nil || lib[fn] {
			return
		}
		lib[fn] = true
		all[fn] = true
		for _, an := range fn.AnonFuncs {
			addFn(an)
		}
	}
	for _, short := range LibPkgs {
		sp := p.SPkgs[short]
		scope := sp.Pkg.Scope()
		for _, name := range scope.Names() {
			switch o := scope.Lookup(name).(type) {
			case *types.Func:
				addFn(prog.FuncValue(o))
			case *types.TypeName:
				if named, ok := o.Type().(*types.Named); ok {
					for i := 0; i < named.NumMethods(); i++ {
						addFn(prog.FuncValue(named.Method(i)))
					}
				}
			}
		}
		if init := sp.Func("init"); init != nil {
			addFn(init)
		}
		for _, m := range sp.Members {
			if f, ok := m.(*ssa.Function); ok {
				addFn(f)
			}
		}
	}
	p.CHA = cha.CallGraph(prog)
	p.CG = vta.CallGraph(all, p.CHA)
	for fn := range lib {
		if fn.Blocks != nil && fn.Synthetic == "" {
			p.Funcs = append(p.Funcs, fn)
		}
	}
	sort.Slice(p.Funcs, func(i, j int) bool { return FuncName(p.Funcs[i]) < FuncName(p.Funcs[j]) })
	return p, nil
}

// InLib reports whether fn belongs to one of the library packages.
func (p *Program) InLib(fn *ssa.Function) bool {
	pk := fn.Package()
	if pk == nil {
		if fn.Parent() != nil {
			return p.InLib(fn.Parent())
		}
		// method of instantiated generic etc.
		if o := fn.Object(); o != nil && o.Pkg() != nil {
			return strings.HasPrefix(o.Pkg().Path(), ModPath+"/")
		}
		return false
	}
	return strings.HasPrefix(pk.Pkg.Path(), ModPath+"/") && p.SPkgs[strings.TrimPrefix(pk.Pkg.Path(), ModPath+"/")] != nil
}

// FuncName is a stable readable name: pkg.(*T).m, pkg.f, pkg.f$1.
func FuncName(fn *ssa.Function) string {
	if fn == nil {
		return "<nil>"
	}
	s := fn.String()
	s = strings.ReplaceAll(s, ModPath+"/", "")
	return s
}

// Pos renders a position relative to the repository root.
func (p *Program) Pos(pos token.Pos) string {
	if !pos.IsValid() {
		return "?"
	}
	ps := p.Fset.Position(pos)
	f := strings.TrimPrefix(ps.Filename, p.Dir+"/")
	return fmt.Sprintf("%s:%d", f, ps.Line)
}

// InstrPos finds a usable position for an instruction (SSA often has NoPos).
func (p *Program) InstrPos(in ssa.Instruction) string {
	if in == nil {
		return "?"
	}
	if in.Pos().IsValid() {
		return p.Pos(in.Pos())
	}
	// look at neighbours in the block
	b := in.Block()
	if b != nil {
		idx := -1
		for i, x := range b.Instrs {
			if x == in {
				idx = i
			}
		}
		for d := 1; d < len(b.Instrs); d++ {
			for _, j := range []int{idx - d, idx + d} {
				if j >= 0 && j < len(b.Instrs) && b.Instrs[j].Pos().IsValid() {
					return p.Pos(b.Instrs[j].Pos()) + "~"
				}
			}
		}
		if b.Parent() != nil && b.Parent().Pos().IsValid() {
			return p.Pos(b.Parent().Pos()) + "~fn"
		}
	}
	return "?"
}

// Func looks a function or method up: Func("service", "service", "stop") is
// (*service.service).stop; Func("service", "", "newBuffer") a package function.
func (p *Program) Func(pkg, recv, name string) *ssa.Function {
	sp := p.SPkgs[pkg]
	if sp == nil {
		return nil
	}
	if recv == "" {
		return sp.Func(name)
	}
	tn, _ := sp.Pkg.Scope().Lookup(recv).(*types.TypeName)
	if tn == nil {
		return nil
	}
	for _, t := range []types.Type{types.NewPointer(tn.Type()), tn.Type()} {
		ms := p.SSA.MethodSets.MethodSet(t)
		for i := 0; i < ms.Len(); i++ {
			sel := ms.At(i)
			if sel.Obj().Name() == name {
				fn := p.SSA.MethodValue(sel)
				if fn != nil && fn.Synthetic == "" {
					return fn
				}
				// promoted/wrapper: find the declared one
				if fn != nil {
					if o, ok := sel.Obj().(*types.Func); ok {
						if d := p.SSA.FuncValue(o); d != nil {
							return d
						}
					}
				}
			}
		}
	}
	return nil
}

// NamedType looks up a named type of a library package.
func (p *Program) NamedType(pkg, name string) *types.Named {
	sp := p.SPkgs[pkg]
	if sp == nil {
		return nil
	}
	tn, _ := sp.Pkg.Scope().Lookup(name).(*types.TypeName)
	if tn == nil {
		return nil
	}
	n, _ := tn.Type().(*types.Named)
	return n
}

// Callees returns the possible callees of a call instruction: the static
// callee if there is one, otherwise the VTA targets.
func (p *Program) Callees(call ssa.CallInstruction) []*ssa.Function {
	if f := call.Common().StaticCallee(); f != nil {
		return []*ssa.Function{f}
	}
	fn := call.Parent()
	n := p.CG.Nodes[fn]
	if n == nil {
		return nil
	}
	var out []*ssa.Function
	seen := map[*ssa.Function]bool{}
	for _, e := range n.Out {
		if e.Site == call && !seen[e.Callee.Func] {
			seen[e.Callee.Func] = true
			out = append(out, e.Callee.Func)
		}
	}
	sort.Slice(out, func(i, j int) bool { return FuncName(out[i]) < FuncName(out[j]) })
	return out
}

// Callers returns call sites (in library code) that may call fn (VTA).
func (p *Program) Callers(fn *ssa.Function) []ssa.CallInstruction {
	n := p.CG.Nodes[fn]
	if n == nil {
		return nil
	}
	var out []ssa.CallInstruction
	for _, e := range n.In {
		if e.Site != nil && p.InLib(e.Caller.Func) {
			out = append(out, e.Site)
		}
	}
	return out
}
