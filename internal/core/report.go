package core

import (
	"bufio"
	"encoding/json"
	"fmt"
	"os"
	"path/filepath"
	"sort"
	"strings"
	"time"
)

// Verdict of one obligation.
type Verdict int

const (
	Discharged Verdict = iota
	Violated
	Undecided
)

func (v Verdict) String() string {
	switch v {
	case Discharged:
		return "discharged"
	case Violated:
		return "violated"
	}
	return "undecided"
}

// Obligation is one rule applied to one construct.
type Obligation struct {
	Property  string   `json:"property"`
	Rule      string   `json:"rule"`
	Construct string   `json:"construct"`
	Verdict   Verdict  `json:"-"`
	VerdictS  string   `json:"verdict"`
	Pos       string   `json:"pos,omitempty"`
	Detail    string   `json:"detail,omitempty"`
	Witness   []string `json:"witness,omitempty"`
	Config    string   `json:"config,omitempty"`
	// Nontrivial: deciding it required examining at least one guard, path or call site.
	Nontrivial bool `json:"nontrivial"`
	Known      bool `json:"known,omitempty"`
}

// Key is the stable identity of the obligation (no line numbers, no spaces).
func (o *Obligation) Key() string {
	return sanitize(o.Property + "/" + o.Rule + "/" + o.Construct)
}

func sanitize(s string) string {
	s = strings.ReplaceAll(s, " ", "")
	s = strings.ReplaceAll(s, "\t", "")
	return s
}

// Floor is a minimum instance count confirmed by hand on the pinned tree.
type Floor struct {
	Name string `json:"name"`
	Got  int    `json:"got"`
	Want int    `json:"want"`
}

// Report collects what one property check did.
type Report struct {
	Property string
	Tier     string
	Config   string
	Obls     []*Obligation
	Floors   []Floor
	Errors   []string // unresolved anchors etc: exit 2
	Counters map[string]int
	Rules    map[string]string // rule id -> statement
	NotCover []string          // what the claim does not cover
	Trusted  []string
	Notes    []string
	start    time.Time
	seen     map[string]int
}

// NewReport starts a report.
func NewReport(prop, tier string) *Report {
	return &Report{Property: prop, Tier: tier, Counters: map[string]int{}, Rules: map[string]string{}, start: time.Now(), seen: map[string]int{}}
}

// Rule registers a rule text (for the evidence explanation).
func (r *Report) Rule(id, text string) { r.Rules[id] = text }

// Count adds to a named counter of analysed things.
func (r *Report) Count(name string, n int) { r.Counters[name] += n }

// Errorf records a condition that makes the run inconclusive (exit 2).
func (r *Report) Errorf(format string, a ...interface{}) {
	r.Errors = append(r.Errors, fmt.Sprintf(format, a...))
}

// Unresolved records an anchor that could not be found by role.
func (r *Report) Unresolved(role string) { r.Errorf("UNRESOLVED-ANCHOR %s", role) }

// Floor records an instance floor.
func (r *Report) Floor(name string, got, want int) {
	r.Floors = append(r.Floors, Floor{name, got, want})
}

// Add appends an obligation; the construct gets an ordinal suffix when the same
// key was already used (ordinal among equals, never a line number).
func (r *Report) Add(rule, construct string, v Verdict, pos, detail string, witness ...string) *Obligation {
	o := &Obligation{Property: r.Property, Rule: rule, Construct: construct, Verdict: v, Pos: pos, Detail: detail, Witness: witness, Nontrivial: true, Config: r.Config}
	k := o.Key()
	r.seen[k]++
	if n := r.seen[k]; n > 1 {
		o.Construct = fmt.Sprintf("%s#%d", construct, n)
	}
	o.VerdictS = v.String()
	r.Obls = append(r.Obls, o)
	return o
}

// Ok / Bad / Unknown are shorthands.
func (r *Report) Ok(rule, construct, pos, detail string) *Obligation {
	return r.Add(rule, construct, Discharged, pos, detail)
}
func (r *Report) Bad(rule, construct, pos, detail string, witness ...string) *Obligation {
	return r.Add(rule, construct, Violated, pos, detail, witness...)
}
func (r *Report) Unknown(rule, construct, pos, detail string) *Obligation {
	return r.Add(rule, construct, Undecided, pos, detail)
}

// Check adds a discharged or violated obligation depending on ok.
func (r *Report) Check(ok bool, rule, construct, pos, okDetail, badDetail string, witness ...string) *Obligation {
	if ok {
		return r.Ok(rule, construct, pos, okDetail)
	}
	return r.Bad(rule, construct, pos, badDetail, witness...)
}

// Merge folds the obligations of another configuration into r: an obligation
// violated in any configuration is violated.
func (r *Report) Merge(o *Report) {
	idx := map[string]*Obligation{}
	for _, x := range r.Obls {
		idx[x.Key()] = x
	}
	for _, x := range o.Obls {
		if y, ok := idx[x.Key()]; ok {
			if x.Verdict != Discharged && y.Verdict == Discharged {
				*y = *x
			}
			continue
		}
		r.Obls = append(r.Obls, x)
	}
	for _, e := range o.Errors {
		r.Errors = append(r.Errors, "["+o.Config+"] "+e)
	}
	for _, f := range o.Floors {
		f.Name = "[" + o.Config + "] " + f.Name
		r.Floors = append(r.Floors, f)
	}
	for k, v := range o.Counters {
		r.Counters["["+o.Config+"] "+k] += v
	}
	r.Notes = append(r.Notes, o.Notes...)
}

// KnownFindings is the parsed known-findings file.
type KnownFindings struct {
	Known map[string]string // key -> text
	Fixed []string
}

// LoadKnown parses /verif/known-findings.txt.
func LoadKnown(path string) (*KnownFindings, error) {
	kf := &KnownFindings{Known: map[string]string{}}
	f, err := os.Open(path)
	if err != nil {
		if os.IsNotExist(err) {
			return kf, nil
		}
		return nil, err
	}
	defer f.Close()
	sc := bufio.NewScanner(f)
	for sc.Scan() {
		line := strings.TrimSpace(sc.Text())
		if line == "" || strings.HasPrefix(line, "#") {
			continue
		}
		if strings.HasPrefix(line, "fixed:") {
			kf.Fixed = append(kf.Fixed, line)
			continue
		}
		if strings.HasPrefix(line, "known:") {
			rest := strings.Fields(strings.TrimPrefix(line, "known:"))
			var key string
			var txt []string
			for _, w := range rest {
				if strings.HasPrefix(w, "key=") {
					key = strings.TrimPrefix(w, "key=")
				} else if strings.HasPrefix(w, "property=") {
				} else {
					txt = append(txt, w)
				}
			}
			if key == "" {
				return nil, fmt.Errorf("known-findings: line without key=: %s", line)
			}
			kf.Known[key] = strings.Join(txt, " ")
			continue
		}
		return nil, fmt.Errorf("known-findings: unrecognised line: %s", line)
	}
	return kf, sc.Err()
}

// Replay is what a VIOLATION line points at.
type Replay struct {
	Property string      `json:"property"`
	Key      string      `json:"key"`
	Tier     string      `json:"tier"`
	Obl      *Obligation `json:"obligation"`
	Howto    string      `json:"howto"`
}

// Finish prints the verdict lines, writes evidence and replay files and returns
// the exit status.
func (r *Report) Finish(verifDir string) int {
	kf, err := LoadKnown(filepath.Join(verifDir, "known-findings.txt"))
	if err != nil {
		r.Errorf("%v", err)
		kf = &KnownFindings{Known: map[string]string{}}
	}
	sort.SliceStable(r.Obls, func(i, j int) bool { return r.Obls[i].Key() < r.Obls[j].Key() })
	var nDis, nVio, nKnown, nUnd, nNontriv int
	distinct := map[string]bool{}
	replayDir := filepath.Join(verifDir, "evidence", "replay")
	os.MkdirAll(replayDir, 0o755)
	// remove stale replay files of this property
	if old, _ := filepath.Glob(filepath.Join(replayDir, r.Property+"-*.json")); old != nil {
		for _, f := range old {
			os.Remove(f)
		}
	}
	var lines []string
	usedKnown := map[string]bool{}
	for _, o := range r.Obls {
		o.VerdictS = o.Verdict.String()
		if o.Nontrivial && !distinct[o.Key()] {
			distinct[o.Key()] = true
			nNontriv++
		}
		switch o.Verdict {
		case Discharged:
			nDis++
		case Undecided:
			nUnd++
			r.Errorf("UNDECIDED %s at %s: %s", o.Key(), o.Pos, o.Detail)
		case Violated:
			if txt, ok := kf.Known[o.Key()]; ok {
				o.Known = true
				nKnown++
				usedKnown[o.Key()] = true
				lines = append(lines, fmt.Sprintf("KNOWN-FINDING: property=%s %s [%s at %s]", r.Property, txt, o.Key(), o.Pos))
				continue
			}
			nVio++
			rp := filepath.Join(replayDir, fmt.Sprintf("%s-%d.json", r.Property, nVio))
			b, _ := json.MarshalIndent(Replay{Property: r.Property, Key: o.Key(), Tier: r.Tier, Obl: o,
				Howto: "bin/mqttcheck -replay " + rp + "  (re-analyses /repo and reports whether this obligation is still violated)"}, "", " ")
			os.WriteFile(rp, b, 0o644)
			fmt.Printf("  violated: %s\n    at %s\n    %s\n", o.Key(), o.Pos, o.Detail)
			for _, w := range o.Witness {
				fmt.Printf("      %s\n", w)
			}
			lines = append(lines, fmt.Sprintf("VIOLATION property=%s replay=%s", r.Property, rp))
		}
	}
	for _, f := range r.Floors {
		if f.Got < f.Want {
			r.Errorf("INSTANCE-FLOOR %s: resolved %d, hand-confirmed floor %d", f.Name, f.Got, f.Want)
		}
	}
	if os.Getenv("MQTTCHECK_VERBOSE") != "" {
		for _, o := range r.Obls {
			fmt.Printf("  [%s] %s @%s :: %s\n", o.Verdict, o.Key(), o.Pos, o.Detail)
		}
		for _, n := range r.Notes {
			fmt.Printf("  note: %s\n", n)
		}
	}
	// summary
	fmt.Printf("property %s tier %s: %d obligations, %d discharged, %d violated, %d known findings, %d undecided\n",
		r.Property, r.Tier, len(r.Obls), nDis, nVio, nKnown, nUnd)
	var cn []string
	for k := range r.Counters {
		cn = append(cn, k)
	}
	sort.Strings(cn)
	for _, k := range cn {
		fmt.Printf("  analysed %-40s %d\n", k, r.Counters[k])
	}
	for _, f := range r.Floors {
		fmt.Printf("  floor    %-40s %d (>= %d)\n", f.Name, f.Got, f.Want)
	}
	for _, l := range lines {
		fmt.Println(l)
	}
	for _, e := range r.Errors {
		fmt.Printf("INCONCLUSIVE: %s\n", e)
	}
	r.writeEvidence(verifDir, nDis, nVio, nKnown, nUnd, nNontriv)
	if nVio > 0 {
		return 1
	}
	if len(r.Errors) > 0 {
		return 2
	}
	return 0
}

func (r *Report) writeEvidence(verifDir string, nDis, nVio, nKnown, nUnd, nNontriv int) {
	perRule := map[string]map[string]int{}
	for _, o := range r.Obls {
		m := perRule[o.Rule]
		if m == nil {
			m = map[string]int{}
			perRule[o.Rule] = m
		}
		m["obligations"]++
		switch {
		case o.Known:
			m["known"]++
		case o.Verdict == Discharged:
			m["discharged"]++
		case o.Verdict == Violated:
			m["violated"]++
		default:
			m["undecided"]++
		}
	}
	// samples: violated/known first, then one per rule, up to 14
	var samples []interface{}
	seenRule := map[string]int{}
	for pass := 0; pass < 2 && len(samples) < 14; pass++ {
		for _, o := range r.Obls {
			if len(samples) >= 14 {
				break
			}
			if pass == 0 && o.Verdict == Discharged {
				continue
			}
			if pass == 1 && (o.Verdict != Discharged || seenRule[o.Rule] >= 2) {
				continue
			}
			seenRule[o.Rule]++
			samples = append(samples, map[string]interface{}{
				"key": o.Key(), "verdict": o.VerdictS, "known_finding": o.Known, "pos": o.Pos, "detail": o.Detail, "witness": o.Witness,
			})
		}
	}
	var rn []string
	for k := range r.Rules {
		rn = append(rn, k)
	}
	sort.Strings(rn)
	var expl strings.Builder
	expl.WriteString("Static analysis of /repo's current working tree (go/packages + go/types + go/ssa + VTA call graph; nothing is executed). ")
	expl.WriteString("Each obligation is one rule applied to one construct found by role; rules decide structural NECESSARY conditions of the property for all paths/inputs/schedules of the analysed source, not the behavioural statement itself. Rules: ")
	for _, k := range rn {
		expl.WriteString(k + ": " + r.Rules[k] + " ")
	}
	if len(r.NotCover) > 0 {
		expl.WriteString("NOT decided: " + strings.Join(r.NotCover, "; ") + ".")
	}
	if r.Trusted == nil {
		r.Trusted = []string{}
	}
	if r.Notes == nil {
		r.Notes = []string{}
	}
	if r.Errors == nil {
		r.Errors = []string{}
	}
	if r.Floors == nil {
		r.Floors = []Floor{}
	}
	if samples == nil {
		samples = []interface{}{"no obligation was generated (see inconclusive)"}
	}
	cov := map[string]interface{}{
		"explanation":         expl.String(),
		"evaluations":         len(r.Obls),
		"distinct_nontrivial": nNontriv,
		"rule":                "one evaluation = one rule applied to one construct (function, call site, loop, access, case clause) resolved from the SSA of the current tree; distinct = distinct obligation key <property>/<rule>/<construct>; non-trivial = the decision examined at least one guard, path, lockset or call site (obligations with an empty instance set are not counted)",
		"samples":             samples,
		"obligations":         len(r.Obls),
		"discharged":          nDis,
		"violated":            nVio,
		"known_findings":      nKnown,
		"undecided":           nUnd,
		"per_rule":            perRule,
		"analysed":            r.Counters,
		"floors":              r.Floors,
		"inconclusive":        r.Errors,
		"notes":               r.Notes,
		"checker_cmd":         "bin/mqttcheck -property " + r.Property + " -tier " + r.Tier,
		"trusted_base":        r.Trusted,
	}
	tier := r.Tier
	if tier != "thorough" {
		tier = "quick"
	}
	ev := map[string]interface{}{
		"property_id": r.Property,
		"tier":        tier,
		"seed":        seed(),
		"level":       "other",
		"coverage":    cov,
		"assumptions": append([]string{"go/types, go/ssa and the VTA call graph are sound over-approximations of the compiled program", "sync/atomic is sequentially consistent", "reflection and unsafe are not used to reach the analysed state"}, r.Trusted...),
		"wall_s":      time.Since(r.start).Seconds(),
		"violations":  nVio,
	}
	b, _ := json.MarshalIndent(ev, "", " ")
	os.MkdirAll(filepath.Join(verifDir, "evidence"), 0o755)
	os.WriteFile(filepath.Join(verifDir, "evidence", r.Property+".json"), b, 0o644)
}

func seed() int {
	var n int
	fmt.Sscanf(os.Getenv("VERIF_SEED"), "%d", &n)
	return n
}
