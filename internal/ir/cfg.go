package ir

import (
	"sort"

	"golang.org/x/tools/go/ssa"
)

// Loop is a natural loop.
type Loop struct {
	Header *ssa.BasicBlock
	Blocks map[*ssa.BasicBlock]bool
	Latch  []*ssa.BasicBlock
}

// Loops finds the natural loops of fn (merged per header), innermost first.
func Loops(fn *ssa.Function) []*Loop {
	byHeader := map[*ssa.BasicBlock]*Loop{}
	for _, b := range fn.Blocks {
		for _, s := range b.Succs {
			if s.Dominates(b) { // back edge b -> s
				l := byHeader[s]
				if l == nil {
					l = &Loop{Header: s, Blocks: map[*ssa.BasicBlock]bool{s: true}}
					byHeader[s] = l
				}
				l.Latch = append(l.Latch, b)
				// collect body: nodes that reach b without passing s
				stack := []*ssa.BasicBlock{b}
				for len(stack) > 0 {
					x := stack[len(stack)-1]
					stack = stack[:len(stack)-1]
					if l.Blocks[x] {
						continue
					}
					l.Blocks[x] = true
					stack = append(stack, x.Preds...)
				}
			}
		}
	}
	var out []*Loop
	for _, l := range byHeader {
		out = append(out, l)
	}
	sort.Slice(out, func(i, j int) bool {
		if len(out[i].Blocks) != len(out[j].Blocks) {
			return len(out[i].Blocks) < len(out[j].Blocks)
		}
		return out[i].Header.Index < out[j].Header.Index
	})
	return out
}

// InnermostLoop returns the smallest loop containing b, or nil.
func InnermostLoop(loops []*Loop, b *ssa.BasicBlock) *Loop {
	for _, l := range loops {
		if l.Blocks[b] {
			return l
		}
	}
	return nil
}

// ExitEdges returns the (from,to) edges leaving the loop.
func (l *Loop) ExitEdges() [][2]*ssa.BasicBlock {
	var out [][2]*ssa.BasicBlock
	var bs []*ssa.BasicBlock
	for b := range l.Blocks {
		bs = append(bs, b)
	}
	sort.Slice(bs, func(i, j int) bool { return bs[i].Index < bs[j].Index })
	for _, b := range bs {
		for _, s := range b.Succs {
			if !l.Blocks[s] {
				out = append(out, [2]*ssa.BasicBlock{b, s})
			}
		}
	}
	return out
}

// InstrIndex returns the index of in within its block.
func InstrIndex(in ssa.Instruction) int {
	for i, x := range in.Block().Instrs {
		if x == in {
			return i
		}
	}
	return -1
}

// Before reports whether a executes before b on every path that executes b
// (a dominates b at instruction granularity).
func Before(a, b ssa.Instruction) bool {
	if a.Block() == b.Block() {
		return InstrIndex(a) < InstrIndex(b)
	}
	return a.Block().Dominates(b.Block())
}

// ReachableFrom computes the set of blocks reachable from the point after
// instruction `from` (its own block counts only if re-entered through a cycle),
// optionally not passing through blocks in stop.
func ReachableBlocks(from *ssa.BasicBlock, stop map[*ssa.BasicBlock]bool) map[*ssa.BasicBlock]bool {
	seen := map[*ssa.BasicBlock]bool{}
	stack := append([]*ssa.BasicBlock{}, from.Succs...)
	for len(stack) > 0 {
		x := stack[len(stack)-1]
		stack = stack[:len(stack)-1]
		if seen[x] || stop[x] {
			continue
		}
		seen[x] = true
		stack = append(stack, x.Succs...)
	}
	return seen
}

// CanReach reports whether instruction b can execute after instruction a.
func CanReach(a, b ssa.Instruction) bool {
	if a.Block() == b.Block() && InstrIndex(a) < InstrIndex(b) {
		return true
	}
	return ReachableBlocks(a.Block(), nil)[b.Block()]
}

// IsPanicBlock reports whether b ends in a panic (or calls a no-return).
func IsPanicBlock(b *ssa.BasicBlock) bool {
	if len(b.Instrs) == 0 {
		return false
	}
	_, ok := b.Instrs[len(b.Instrs)-1].(*ssa.Panic)
	return ok
}

// Returns lists the return instructions of fn.
func Returns(fn *ssa.Function) []*ssa.Return {
	var out []*ssa.Return
	for _, b := range fn.Blocks {
		if len(b.Instrs) == 0 {
			continue
		}
		if r, ok := b.Instrs[len(b.Instrs)-1].(*ssa.Return); ok {
			out = append(out, r)
		}
	}
	return out
}

// Calls lists all call instructions (call, go, defer) of fn in block order.
func Calls(fn *ssa.Function) []ssa.CallInstruction {
	var out []ssa.CallInstruction
	if fn == nil {
		return nil // an unresolved role: the caller reports it
	}
	for _, b := range fn.Blocks {
		for _, in := range b.Instrs {
			if c, ok := in.(ssa.CallInstruction); ok {
				out = append(out, c)
			}
		}
	}
	return out
}

// ReturnOperand resolves the idx-th result of a return through the
// "defer-spilled result" pattern of go/ssa (`*r = v; rundefers; t = *r; return t`):
// if the operand is a load of a local cell that is stored earlier in the same
// block, the stored value is returned.
func ReturnOperand(ret *ssa.Return, idx int) ssa.Value {
	v := ret.Results[idx]
	u, ok := v.(*ssa.UnOp)
	if !ok {
		return v
	}
	al, ok := u.X.(*ssa.Alloc)
	if !ok {
		return v
	}
	b := ret.Block()
	for i := InstrIndex(ret) - 1; i >= 0; i-- {
		if st, ok := b.Instrs[i].(*ssa.Store); ok && st.Addr == ssa.Value(al) {
			return st.Val
		}
	}
	// single predecessor chain
	for p := b; len(p.Preds) == 1; {
		p = p.Preds[0]
		for i := len(p.Instrs) - 1; i >= 0; i-- {
			if st, ok := p.Instrs[i].(*ssa.Store); ok && st.Addr == ssa.Value(al) {
				return st.Val
			}
		}
	}
	return v
}

// LocalLoadValue: for a load `*cell` of a local cell (Alloc) returns the value
// of the last store to that cell earlier in the same block (the common pattern
// `*err = call(); t = *err; if t != nil`), or nil.
func LocalLoadValue(u *ssa.UnOp) ssa.Value {
	al, ok := u.X.(*ssa.Alloc)
	if !ok {
		return nil
	}
	b := u.Block()
	for i := InstrIndex(u) - 1; i >= 0; i-- {
		if st, ok := b.Instrs[i].(*ssa.Store); ok && st.Addr == ssa.Value(al) {
			return st.Val
		}
		// a call that receives the cell's address could store to it
	}
	// nothing stored in this block so far: what the only way into the block left in the cell
	// (`*err = call(); if *err != nil { return *err }`)
	for hops := 0; hops < 4 && len(b.Preds) == 1 && b.Preds[0] != b; hops++ {
		b = b.Preds[0]
		for i := len(b.Instrs) - 1; i >= 0; i-- {
			if st, ok := b.Instrs[i].(*ssa.Store); ok && st.Addr == ssa.Value(al) {
				return st.Val
			}
		}
	}
	return nil
}
