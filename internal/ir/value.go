// Package ir holds SSA helpers shared by the engines: value identity through
// spills and phis, access paths, loops, path search.
package ir

import (
	"fmt"
	"go/token"
	"go/types"
	"strings"

	"golang.org/x/tools/go/ssa"
)

// SeeThrough strips conversions that do not change identity and resolves
// loads of single-store local cells (the spill pattern `t0 = new T; *t0 = p`
// that go/ssa produces for variables captured by deferred closures).
func SeeThrough(v ssa.Value) ssa.Value { return seeThrough(v, nil) }

func seeThrough(v ssa.Value, seen map[*ssa.Phi]bool) ssa.Value {
	for i := 0; i < 32; i++ {
		switch x := v.(type) {
		case *ssa.ChangeType:
			v = x.X
		case *ssa.ChangeInterface:
			v = x.X
		case *ssa.MakeInterface:
			v = x.X
		case *ssa.UnOp:
			if x.Op != token.MUL {
				return v
			}
			if s := SingleStore(x.X); s != nil {
				v = s
				continue
			}
			return v
		case *ssa.Phi:
			// phi of identical values
			if seen[x] {
				return v
			}
			if seen == nil {
				seen = map[*ssa.Phi]bool{}
			}
			seen[x] = true
			var one ssa.Value
			same := true
			for _, e := range x.Edges {
				e = seeThrough(e, seen)
				if e == x {
					continue
				}
				if one == nil {
					one = e
				} else if one != e {
					same = false
				}
			}
			if same && one != nil {
				v = one
				continue
			}
			return v
		default:
			return v
		}
	}
	return v
}

// SingleStore returns the unique value stored into a local cell (an *ssa.Alloc
// or a closure FreeVar bound to such a cell) if it has exactly one store in
// the allocating function and its closures, nil otherwise.
func SingleStore(addr ssa.Value) ssa.Value {
	switch a := addr.(type) {
	case *ssa.Alloc:
		return singleStoreOfAlloc(a)
	case *ssa.FreeVar:
		// find binding in the parent's MakeClosure
		fn := a.Parent()
		par := fn.Parent()
		if par == nil {
			return nil
		}
		idx := -1
		for i, fv := range fn.FreeVars {
			if fv == a {
				idx = i
			}
		}
		if idx < 0 {
			return nil
		}
		var bound ssa.Value
		n := 0
		for _, b := range par.Blocks {
			for _, in := range b.Instrs {
				if mc, ok := in.(*ssa.MakeClosure); ok && mc.Fn == fn {
					bound = mc.Bindings[idx]
					n++
				}
			}
		}
		if n != 1 {
			return nil
		}
		if _, isPtr := bound.Type().Underlying().(*types.Pointer); !isPtr {
			return nil
		}
		return SingleStore(bound)
	}
	return nil
}

func singleStoreOfAlloc(a *ssa.Alloc) ssa.Value {
	var val ssa.Value
	n := 0
	ok := true
	var visit func(refs []ssa.Instruction)
	visit = func(refs []ssa.Instruction) {
		for _, r := range refs {
			switch x := r.(type) {
			case *ssa.Store:
				if x.Addr == ssa.Value(a) {
					val = x.Val
					n++
				} else {
					ok = false // address stored somewhere
				}
			case *ssa.UnOp:
				// load: fine
			case *ssa.MakeClosure:
				// captured: look at the stores inside the closure
				fn := x.Fn.(*ssa.Function)
				for i, bnd := range x.Bindings {
					if bnd == ssa.Value(a) {
						fv := fn.FreeVars[i]
						if storesToFreeVar(fv) {
							ok = false
						}
					}
				}
			case *ssa.DebugRef:
			default:
				// address escapes (call arg, field addr of struct cell, ...)
				if fa, isFA := r.(*ssa.FieldAddr); isFA {
					// reading a field of a local struct copy is fine; writing through it is not
					if fa.Referrers() != nil {
						for _, r2 := range *fa.Referrers() {
							switch r2.(type) {
							case *ssa.UnOp, *ssa.DebugRef:
							default:
								ok = false
							}
						}
					}
				} else if _, isIA := r.(*ssa.IndexAddr); isIA {
					ok = false
				} else {
					ok = false
				}
			}
		}
	}
	if a.Referrers() == nil {
		return nil
	}
	visit(*a.Referrers())
	if !ok || n != 1 {
		return nil
	}
	return val
}

func storesToFreeVar(fv *ssa.FreeVar) bool {
	if fv.Referrers() == nil {
		return false
	}
	for _, r := range *fv.Referrers() {
		switch x := r.(type) {
		case *ssa.Store:
			if x.Addr == ssa.Value(fv) {
				return true
			}
			return true
		case *ssa.UnOp:
		case *ssa.MakeClosure:
			fn := x.Fn.(*ssa.Function)
			for i, b := range x.Bindings {
				if b == ssa.Value(fv) && storesToFreeVar(fn.FreeVars[i]) {
					return true
				}
			}
		case *ssa.DebugRef:
		default:
			return true
		}
	}
	return false
}

// Path is an access path: a root value and a sequence of field selections.
type Path struct {
	Root   ssa.Value
	Fields []string
	// Types[i] is the struct type that Fields[i] was selected from
	Owners []*types.Named
	Opaque bool // contains an index / call result / unknown step
}

// PathOf computes the access path denoted by v (either the address of a
// location or the value loaded from it: both yield the same path).
func PathOf(v ssa.Value) Path {
	var fields []string
	var owners []*types.Named
	opaque := false
	for i := 0; i < 64; i++ {
		v = SeeThrough(v)
		switch x := v.(type) {
		case *ssa.FieldAddr:
			st, named := structOf(x.X.Type())
			fields = append(fields, st.Field(x.Field).Name())
			owners = append(owners, named)
			v = x.X
			continue
		case *ssa.Field:
			st, named := structOf(x.X.Type())
			fields = append(fields, st.Field(x.Field).Name())
			owners = append(owners, named)
			v = x.X
			continue
		case *ssa.UnOp:
			if x.Op == token.MUL {
				v = x.X
				continue
			}
		case *ssa.IndexAddr:
			fields = append(fields, "[]")
			owners = append(owners, nil)
			opaque = true
			v = x.X
			continue
		case *ssa.Index:
			fields = append(fields, "[]")
			owners = append(owners, nil)
			opaque = true
			v = x.X
			continue
		case *ssa.Slice:
			v = x.X
			continue
		}
		break
	}
	// reverse
	for i, j := 0, len(fields)-1; i < j; i, j = i+1, j-1 {
		fields[i], fields[j] = fields[j], fields[i]
		owners[i], owners[j] = owners[j], owners[i]
	}
	return Path{Root: v, Fields: fields, Owners: owners, Opaque: opaque}
}

func structOf(t types.Type) (*types.Struct, *types.Named) {
	if p, ok := t.Underlying().(*types.Pointer); ok {
		t = p.Elem()
	}
	named, _ := t.(*types.Named)
	st, _ := t.Underlying().(*types.Struct)
	return st, named
}

// RootName renders the root of a path.
func RootName(v ssa.Value) string {
	switch x := v.(type) {
	case *ssa.Parameter:
		return x.Name()
	case *ssa.FreeVar:
		return x.Name()
	case *ssa.Global:
		return x.Pkg.Pkg.Name() + "." + x.Name()
	case *ssa.Alloc:
		return "new:" + x.Comment
	case nil:
		return "?"
	}
	return v.Name()
}

// String renders root.f.g.
func (p Path) String() string {
	s := RootName(p.Root)
	for _, f := range p.Fields {
		s += "." + f
	}
	return s
}

// Class abstracts the path to "<pkg.Type>.f.g" where Type is the innermost
// heap object the path passes through (the struct reached by the last pointer
// hop), so that svc.in.ccond.L and bf.ccond.L coincide (both are
// service.buffer.ccond.L ... sync.Cond.L is reached through a pointer, hence
// "sync.Cond.L" would be the innermost; for that reason hops into types of
// other modules are not taken as boundaries).
func (p Path) Class() string {
	start := -1
	for i := range p.Fields {
		o := p.Owners[i]
		if o == nil {
			continue
		}
		if start < 0 {
			start = i
			continue
		}
		// is Fields[i-1] a pointer hop into a struct of the analysed module?
		if i > 0 && p.Owners[i-1] != nil {
			if ft := fieldType(p.Owners[i-1], p.Fields[i-1]); ft != nil {
				if _, isPtr := ft.Underlying().(*types.Pointer); isPtr && inModule(o) {
					start = i
				}
			}
		}
	}
	if start < 0 {
		return "?" + strings.Join(p.Fields, ".")
	}
	o := p.Owners[start]
	name := o.Obj().Name()
	if o.Obj().Pkg() != nil {
		name = o.Obj().Pkg().Name() + "." + name
	}
	return name + "." + strings.Join(p.Fields[start:], ".")
}

func inModule(n *types.Named) bool {
	return n.Obj().Pkg() != nil && strings.HasPrefix(n.Obj().Pkg().Path(), "github.com/mdzio/go-mqtt")
}

func fieldType(n *types.Named, name string) types.Type {
	st, _ := n.Underlying().(*types.Struct)
	if st == nil {
		return nil
	}
	for i := 0; i < st.NumFields(); i++ {
		if st.Field(i).Name() == name {
			return st.Field(i).Type()
		}
	}
	return nil
}

// SamePath reports whether two paths denote the same location assuming the
// intermediate pointer fields are not reassigned in between.
func SamePath(a, b Path) bool {
	if a.Root != b.Root || len(a.Fields) != len(b.Fields) || a.Opaque || b.Opaque {
		return false
	}
	for i := range a.Fields {
		if a.Fields[i] != b.Fields[i] {
			return false
		}
	}
	return true
}

// StaticCalleeName returns pkgpath.(recv).name of a static callee or "".
func StaticCalleeName(c *ssa.CallCommon) string {
	if f := c.StaticCallee(); f != nil {
		return f.String()
	}
	if c.IsInvoke() {
		return "invoke " + c.Value.Type().String() + "." + c.Method.Name()
	}
	return ""
}

// IsMethod reports whether the call is to method `name` of named type
// pkgPath.typeName (pointer or value receiver), either statically or as an
// interface invoke of an interface with that name.
func IsMethod(c *ssa.CallCommon, pkgPath, typeName, name string) bool {
	if c.IsInvoke() {
		if c.Method.Name() != name {
			return false
		}
		return typeIs(c.Value.Type(), pkgPath, typeName)
	}
	f := c.StaticCallee()
	if f == nil || f.Name() != name || f.Signature.Recv() == nil {
		return false
	}
	return typeIs(f.Signature.Recv().Type(), pkgPath, typeName)
}

func typeIs(t types.Type, pkgPath, typeName string) bool {
	if p, ok := t.(*types.Pointer); ok {
		t = p.Elem()
	}
	n, ok := t.(*types.Named)
	if !ok {
		return false
	}
	if n.Obj().Name() != typeName {
		return false
	}
	if n.Obj().Pkg() == nil {
		return pkgPath == ""
	}
	return n.Obj().Pkg().Path() == pkgPath
}

// TypeIs is exported typeIs.
func TypeIs(t types.Type, pkgPath, typeName string) bool { return typeIs(t, pkgPath, typeName) }

// IsFunc reports whether the call statically targets package function pkgPath.name.
func IsFunc(c *ssa.CallCommon, pkgPath, name string) bool {
	f := c.StaticCallee()
	if f == nil || f.Signature.Recv() != nil || f.Name() != name {
		return false
	}
	return f.Pkg != nil && f.Pkg.Pkg.Path() == pkgPath
}

// Receiver returns the receiver operand of a method call (static or invoke).
func Receiver(c *ssa.CallCommon) ssa.Value {
	if c.IsInvoke() {
		return c.Value
	}
	if f := c.StaticCallee(); f != nil && f.Signature.Recv() != nil && len(c.Args) > 0 {
		return c.Args[0]
	}
	return nil
}

// Describe renders an instruction for witnesses.
func Describe(in ssa.Instruction) string {
	if v, ok := in.(ssa.Value); ok {
		return fmt.Sprintf("%s = %s", v.Name(), in.String())
	}
	return in.String()
}
