package main

import (
	"encoding/json"
	"fmt"
	"os"
	"path/filepath"
	"runtime"
	"sort"
	"strings"
	"sync"

	"verif/internal/core"
)

// Control is a stored single-edit variant of the tree used to test the rules
// both ways: a positive control must flip the named obligations to violated, a
// negative control (behaviour-preserving edit) must leave the check silent.
type Control struct {
	Name   string   `json:"name"`
	Kind   string   `json:"kind"` // positive | negative
	Why    string   `json:"why,omitempty"`
	Edits  []Edit   `json:"edits"`
	Expect []string `json:"expect,omitempty"` // obligation keys (prefix match) that must be violated
}

// Edit is an exact-text replacement; if Old does not occur exactly once the control is skipped.
type Edit struct {
	File string `json:"file"`
	Old  string `json:"old"`
	New  string `json:"new"`
	// Nth > 0: Old occurs several times (sibling functions); replace the Nth occurrence (1-based), Of occurrences expected
	Nth int `json:"nth,omitempty"`
	Of  int `json:"of,omitempty"`
}

func (e Edit) applicable(text string) bool {
	n := strings.Count(text, e.Old)
	if e.Nth > 0 {
		return n == e.Of && e.Nth <= n
	}
	return n == 1
}

func (e Edit) apply(text string) string {
	if e.Nth <= 1 {
		return strings.Replace(text, e.Old, e.New, 1)
	}
	idx := -1
	from := 0
	for k := 0; k < e.Nth; k++ {
		i := strings.Index(text[from:], e.Old)
		if i < 0 {
			return text
		}
		idx = from + i
		from = idx + len(e.Old)
	}
	return text[:idx] + e.New + text[idx+len(e.Old):]
}

// ControlResult is recorded in the evidence.
type ControlResult struct {
	Name   string `json:"name"`
	Kind   string `json:"kind"`
	Status string `json:"status"` // ok | skipped | FAILED
	Detail string `json:"detail,omitempty"`
}

func loadControls(verif, prop string) ([]Control, error) {
	b, err := os.ReadFile(filepath.Join(verif, "controls", prop+".json"))
	if err != nil {
		if os.IsNotExist(err) {
			return nil, nil
		}
		return nil, err
	}
	var cs []Control
	if err := json.Unmarshal(b, &cs); err != nil {
		return nil, fmt.Errorf("controls/%s.json: %v", prop, err)
	}
	return cs, nil
}

// sharedNegatives: the behaviour-preserving variants recorded for the other
// properties; every property's rules must stay silent on them too.
func sharedNegatives(verif, prop string) []Control {
	files, _ := filepath.Glob(filepath.Join(verif, "controls", "C*.json"))
	sort.Strings(files)
	var out []Control
	for _, f := range files {
		other := strings.TrimSuffix(filepath.Base(f), ".json")
		if other == prop {
			continue
		}
		cs, err := loadControls(verif, other)
		if err != nil {
			continue
		}
		for _, c := range cs {
			if c.Kind == "negative" {
				c.Name = other + ":" + c.Name
				out = append(out, c)
			}
		}
	}
	return out
}

// runControls applies each control to a scratch copy of repo (outside /repo and
// /verif), analyses it and removes it. Controls run on a small worker pool.
func runControls(prop, repo, verif string, only string, base map[string]bool) []ControlResult {
	cs, err := loadControls(verif, prop)
	if err != nil {
		return []ControlResult{{Name: "load", Status: "FAILED", Detail: err.Error()}}
	}
	cs = append(cs, sharedNegatives(verif, prop)...)
	var sel []Control
	for _, ctl := range cs {
		if only != "" && ctl.Name != only {
			continue
		}
		sel = append(sel, ctl)
	}
	out := make([]ControlResult, len(sel))
	workers := runtime.NumCPU() / 3
	if workers < 1 {
		workers = 1
	}
	if workers > 5 {
		workers = 5
	}
	var wg sync.WaitGroup
	next := make(chan int)
	for w := 0; w < workers; w++ {
		wg.Add(1)
		go func() {
			defer wg.Done()
			for i := range next {
				out[i] = runControl(prop, repo, sel[i], base)
			}
		}()
	}
	for i := range sel {
		next <- i
	}
	close(next)
	wg.Wait()
	return out
}

func runControl(prop, repo string, ctl Control, base map[string]bool) (res ControlResult) {
	res = ControlResult{Name: ctl.Name, Kind: ctl.Kind}
	// check applicability first
	for _, e := range ctl.Edits {
		b, err := os.ReadFile(filepath.Join(repo, e.File))
		if err != nil || !e.applicable(string(b)) {
			res.Status = "skipped"
			res.Detail = "the anchored text of " + e.File + " is not present exactly once in the current tree (file edited): control not applicable"
			return
		}
	}
	tmp, err := os.MkdirTemp("", "mqttcheck-control-")
	if err != nil {
		res.Status = "skipped"
		res.Detail = err.Error()
		return
	}
	defer os.RemoveAll(tmp)
	scratch := filepath.Join(tmp, "repo")
	if err := copyTree(repo, scratch); err != nil {
		res.Status = "skipped"
		res.Detail = "copy failed: " + err.Error()
		return
	}
	for _, e := range ctl.Edits {
		p := filepath.Join(scratch, e.File)
		b, _ := os.ReadFile(p)
		os.WriteFile(p, []byte(e.apply(string(b))), 0o644)
	}
	rep := runOne(prop, "quick", cfgT{"control:" + ctl.Name, core.LoadConfig{Dir: scratch}})
	violated := map[string]bool{}
	var vkeys []string
	for _, o := range rep.Obls {
		if o.Verdict == core.Violated {
			violated[o.Key()] = true
			vkeys = append(vkeys, o.Key())
		}
	}
	sort.Strings(vkeys)
	if ctl.Kind == "negative" {
		for _, o := range rep.Obls {
			if o.Verdict == core.Undecided {
				rep.Errors = append(rep.Errors, "undecided: "+o.Key())
			}
		}
		for _, f := range rep.Floors {
			if f.Got < f.Want {
				rep.Errors = append(rep.Errors, fmt.Sprintf("floor %s: %d < %d", f.Name, f.Got, f.Want))
			}
		}
	}
	if len(rep.Errors) > 0 && ctl.Kind == "negative" {
		res.Status = "FAILED"
		res.Detail = "inconclusive on a behaviour-preserving variant: " + strings.Join(rep.Errors, "; ")
		return
	}
	switch ctl.Kind {
	case "negative":
		// a negative control must not add violations to those of the unmodified tree
		var extra []string
		for _, k := range vkeys {
			if base[k] {
				continue
			}
			extra = append(extra, k)
		}
		if len(extra) > 0 {
			res.Status = "FAILED"
			res.Detail = "behaviour-preserving variant raised: " + strings.Join(extra, ", ")
		} else {
			res.Status = "ok"
			res.Detail = "silent"
		}
	default:
		var missing []string
		for _, want := range ctl.Expect {
			hit := false
			for k := range violated {
				if strings.HasPrefix(k, want) {
					hit = true
				}
			}
			if !hit {
				missing = append(missing, want)
			}
		}
		if len(missing) > 0 || len(vkeys) == 0 {
			res.Status = "FAILED"
			res.Detail = fmt.Sprintf("expected violated %v; got violated %v; inconclusive %v", missing, vkeys, rep.Errors)
		} else {
			res.Status = "ok"
			res.Detail = "flipped: " + strings.Join(vkeys, ", ")
		}
	}
	return
}

// copyTree copies the working tree (not .git) of src to dst.
func copyTree(src, dst string) error {
	return filepath.Walk(src, func(p string, info os.FileInfo, err error) error {
		if err != nil {
			return err
		}
		rel, _ := filepath.Rel(src, p)
		if rel == ".git" || strings.HasPrefix(rel, ".git"+string(filepath.Separator)) {
			if info.IsDir() {
				return filepath.SkipDir
			}
			return nil
		}
		target := filepath.Join(dst, rel)
		if info.IsDir() {
			return os.MkdirAll(target, 0o755)
		}
		if !info.Mode().IsRegular() {
			return nil
		}
		b, err := os.ReadFile(p)
		if err != nil {
			return err
		}
		return os.WriteFile(target, b, 0o644)
	})
}
