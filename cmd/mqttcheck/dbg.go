package main

import (
	"fmt"
	"os"
	"verif/internal/core"
)

func init() {
	if os.Getenv("DBG_FUNCS") != "" {
		p, err := core.Load(core.LoadConfig{Dir: "/repo"})
		if err != nil { panic(err) }
		for _, f := range p.Funcs { fmt.Println(core.FuncName(f)) }
		os.Exit(0)
	}
}
