// mqttcheck decides structural necessary conditions of the properties in
// /verif/properties.jsonl by static analysis of /repo's current working tree.
package main

import (
	"encoding/json"
	"flag"
	"fmt"
	"os"
	"path/filepath"
	"runtime/debug"

	"verif/internal/core"
	"verif/internal/props"
)

func main() {
	prop := flag.String("property", "", "property id (C01..C20)")
	tier := flag.String("tier", "quick", "quick|thorough")
	repo := flag.String("repo", "/repo", "repository root")
	verif := flag.String("verif", "", "verif directory (default: directory above the binary)")
	replay := flag.String("replay", "", "replay file written by a previous run")
	list := flag.Bool("list", false, "list properties")
	ctlOnly := flag.Bool("controls", false, "run only the controls of the property (development aid)")
	ctlName := flag.String("control", "", "with -controls: run only this control")
	sweep := flag.Bool("sweep", false, "development aid: run the quick checks of all properties against one load of -repo; prints '=== <id> rc=<n>' after each")
	flag.Parse()
	if *verif == "" {
		exe, _ := os.Executable()
		*verif = filepath.Dir(filepath.Dir(exe))
	}
	if t := os.Getenv("VERIF_TIER"); t != "" && *tier == "" {
		*tier = t
	}
	if *list {
		for _, id := range props.IDs() {
			fmt.Println(id)
		}
		return
	}
	if *sweep {
		// development aid: all properties against one loaded program (amd64 configuration), one summary block each
		os.Exit(runSweep(*repo, *verif))
	}
	if *replay != "" {
		os.Exit(doReplay(*replay, *repo, *verif))
	}
	if props.Registry[*prop] == nil {
		fmt.Fprintf(os.Stderr, "unknown property %q\n", *prop)
		os.Exit(2)
	}
	rep := run(*prop, *tier, *repo)
	if *tier == "thorough" || *ctlOnly {
		base := map[string]bool{}
		for _, o := range rep.Obls {
			if o.Verdict == core.Violated {
				base[o.Key()] = true
			}
		}
		res := runControls(*prop, *repo, *verif, *ctlName, base)
		nok, nskip := 0, 0
		for _, r := range res {
			fmt.Printf("  control %-9s %-50s %s  %s\n", r.Kind, r.Name, r.Status, r.Detail)
			switch r.Status {
			case "ok":
				nok++
			case "skipped":
				nskip++
			default:
				rep.Errorf("CONTROL %s (%s) did not behave as recorded: %s", r.Name, r.Kind, r.Detail)
			}
			rep.Notes = append(rep.Notes, fmt.Sprintf("control %s (%s): %s - %s", r.Name, r.Kind, r.Status, r.Detail))
		}
		rep.Count("controls ok", nok)
		rep.Count("controls skipped (anchor text changed)", nskip)
	}
	os.Exit(rep.Finish(*verif))
}

type cfgT struct {
	name string
	lc   core.LoadConfig
}

func run(prop, tier, repo string) *core.Report {
	cfgs := []cfgT{{"amd64", core.LoadConfig{Dir: repo}}}
	if tier == "thorough" {
		cfgs = append(cfgs,
			cfgT{"386", core.LoadConfig{Dir: repo, GOARCH: "386"}},
			cfgT{"amd64+verif", core.LoadConfig{Dir: repo, Tags: "verif"}})
	}
	var main *core.Report
	for _, cf := range cfgs {
		rep := runOne(prop, tier, cf)
		if main == nil {
			main = rep
		} else {
			main.Merge(rep)
		}
	}
	return main
}

func runOne(prop, tier string, cf cfgT) (rep *core.Report) {
	rep = core.NewReport(prop, tier)
	rep.Config = cf.name
	defer func() {
		if r := recover(); r != nil {
			rep.Errorf("checker panic in configuration %s: %v\n%s", cf.name, r, debug.Stack())
		}
	}()
	p, err := core.Load(cf.lc)
	if err != nil {
		rep.Errorf("load (%s): %v", cf.name, err)
		return rep
	}
	rep.Count("packages", len(p.Pkgs))
	rep.Count("functions", len(p.Funcs))
	defer props.ReleaseProgram(p.SSA)
	ctx := props.NewCtx(p, rep, tier)
	props.Registry[prop](ctx)
	return rep
}

func doReplay(path, repo, verif string) int {
	b, err := os.ReadFile(path)
	if err != nil {
		fmt.Fprintln(os.Stderr, err)
		return 2
	}
	var rp core.Replay
	if err := json.Unmarshal(b, &rp); err != nil {
		fmt.Fprintln(os.Stderr, err)
		return 2
	}
	if props.Registry[rp.Property] == nil {
		fmt.Fprintf(os.Stderr, "unknown property %q in replay file\n", rp.Property)
		return 2
	}
	rep := run(rp.Property, rp.Tier, repo)
	for _, o := range rep.Obls {
		if o.Key() == rp.Key {
			fmt.Printf("replay %s: obligation %s is %s at %s\n  %s\n", path, o.Key(), o.Verdict, o.Pos, o.Detail)
			for _, w := range o.Witness {
				fmt.Printf("    %s\n", w)
			}
			if o.Verdict == core.Violated {
				fmt.Printf("VIOLATION property=%s replay=%s\n", rp.Property, path)
				return 1
			}
			return 0
		}
	}
	fmt.Printf("replay %s: obligation %s no longer exists in the current tree\n", path, rp.Key)
	return 0
}

func runSweep(repo, verif string) int {
	p, err := core.Load(core.LoadConfig{Dir: repo})
	if err != nil {
		fmt.Printf("load: %v\n", err)
		return 2
	}
	worst := 0
	for _, id := range props.IDs() {
		if len(id) != 3 || id[0] != 'C' {
			continue // development registries
		}
		rep := core.NewReport(id, "quick")
		rep.Config = "amd64"
		func() {
			defer func() {
				if r := recover(); r != nil {
					rep.Errorf("checker panic: %v\n%s", r, debug.Stack())
				}
			}()
			rep.Count("packages", len(p.Pkgs))
			rep.Count("functions", len(p.Funcs))
			props.Registry[id](props.NewCtx(p, rep, "quick"))
		}()
		rc := rep.Finish(verif)
		fmt.Printf("=== %s rc=%d\n", id, rc)
		if rc > worst {
			worst = rc
		}
	}
	return worst
}
