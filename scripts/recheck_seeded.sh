#!/bin/bash
# usage: recheck_seeded.sh [<Cnn-mK> ...]   - re-runs all 20 quick checks against every seeded change (default: all of
# /verif/seeded/*) on a scratch copy of /repo (outside /repo and /verif, removed afterwards) and rewrites the
# "caught_by" entry of its meta.json. A seeded change whose patch no longer applies to /repo is reported and left alone.
# MQTTCHECK_BIN selects the checker binary (default /verif/bin/mqttcheck).
BIN=${MQTTCHECK_BIN:-/verif/bin/mqttcheck}
one() {
  id=$1
  d=/verif/seeded/$id
  T=$(mktemp -d /tmp/recheck.XXXXXX)
  mkdir -p $T/repo $T/verif
  (cd /repo && tar --exclude=.git -cf - .) | (cd $T/repo && tar xf -)
  cp /verif/known-findings.txt $T/verif/
  if ! (cd $T/repo && patch -p1 -s --no-backup-if-mismatch < $d/patch.diff >/dev/null 2>&1); then
    echo "$id: PATCH-DOES-NOT-APPLY"; rm -rf $T; return
  fi
  res=$($BIN -sweep -repo $T/repo -verif $T/verif 2>&1)
  out=$(echo "$res" | awk '/^  violated:/ { sub(/^  violated: /, ""); acc = acc (acc == "" ? "" : "|") $0 } /^=== / { if (acc != "") print $2 "=" acc; acc = "" }')
  echo "$res" | grep -q '^=== C20 ' || { echo "$id: SWEEP-INCOMPLETE"; rm -rf $T; return; }
  rm -rf $T
  python3 - "$d/meta.json" "$out" <<'PY'
import json,sys
p,out=sys.argv[1],sys.argv[2]
m=json.load(open(p))
cb={}
for l in out.splitlines():
    prop,keys=l.split('=',1)
    cb[prop]=keys.split('|')
m['caught_by']=cb
m['caught_by_own_property']=m['property'] in cb
json.dump(m,open(p,'w'),indent=1)
print("%s-%s: own=%s caught_by=%s"%(m['property'],m['mutant'],m['property'] in cb,','.join(sorted(cb))))
PY
}
export -f one
export BIN
if [ $# -gt 0 ]; then ids="$@"; else ids=$(ls /verif/seeded | grep '^C'); fi
echo $ids | tr ' ' '\n' | xargs -P ${SWEEP_PAR:-5} -I{} bash -c 'one {}'
