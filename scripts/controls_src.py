#!/usr/bin/env python3
"""Source of /verif/controls/<id>.json (run: python3 scripts/controls_src.py).

A control is an exact-text edit of /repo applied to a scratch copy by
`mqttcheck -tier thorough` (or -controls): a *positive* control must flip the
named obligations to violated, a *negative* control is a behaviour-preserving
edit and must leave the check silent.  C04.json and C15.json were written by
hand earlier and are not generated here.
"""
import json, os, sys

HERE = os.path.dirname(os.path.abspath(__file__))
OUT = os.path.join(HERE, "..", "controls")

C = {}


def pos(prop, name, why, edits, expect):
    C.setdefault(prop, []).append(dict(name=name, kind="positive", why=why,
                                       edits=[dict(file=f, old=o, new=n) for f, o, n in edits], expect=expect))


def neg(prop, name, why, edits):
    C.setdefault(prop, []).append(dict(name=name, kind="negative", why=why,
                                       edits=[dict(file=f, old=o, new=n) for f, o, n in edits]))


PROC = "service/process.go"
SVC = "service/service.go"
SRV = "service/server.go"
CLI = "service/client.go"
SR = "service/sendrecv.go"
BUF = "service/buffer.go"
MT = "topics/memtopics.go"
AQ = "sessions/ackqueue.go"
SESS = "sessions/session.go"

ONPUB_LOOP = """	for i, s := range p.subs {
		if s != nil {
			fn := s.(*OnPublishFunc)
			// use the possibly downgraded qos
			msg.SetQoS(p.qoss[i])
			if err := (*fn)(msg); err != nil {
				log.Warningf("%v", err)
			}
		}
	}
"""

# ---------------------------------------------------------------- C01
pos("C01", "fanout-drops-setqos", "subscribers receive the publisher's QoS instead of min(publish, granted)",
    [(PROC, ONPUB_LOOP, ONPUB_LOOP.replace("msg.SetQoS(p.qoss[i])", "_ = p.qoss[i]"))],
    ["C01/P4-loop-contract/onPublish:fan-out:per-subscriber-qos"])
pos("C01", "fanout-stops-at-first-error", "one failing subscriber (a closed connection) ends the delivery to all later ones",
    [(PROC, ONPUB_LOOP, ONPUB_LOOP.replace('				log.Warningf("%v", err)\n', '				return err\n'))],
    ["C01/P4-loop-contract/onPublish:fan-out:ranges-over-matched-subscribers"])
pos("C01", "teardown-keeps-subscriptions", "the server side no longer deregisters a closing connection",
    [(SVC, "	if !svc.client && svc.sess != nil {\n		topics, _, err := svc.sess.Topics()",
      "	if svc.client && svc.sess != nil {\n		topics, _, err := svc.sess.Topics()")],
    ["C01/P8-guard-contract/teardown:unsubscribe-all(server)"])
pos("C01", "restore-uses-other-token", "restored subscriptions are registered under a token teardown cannot remove",
    [(SVC, "			svc.topicsMgr.Subscribe([]byte(t), qoss[i], &svc.onpub)", "			svc.topicsMgr.Subscribe([]byte(t), qoss[i], svc.onpub)")],
    ["C01/P9-who-may/start:Subscribe-token"])
pos("C01", "subscribe-not-recorded-in-session", "the tree is updated but the session record is not: teardown leaves the subscription behind",
    [(PROC, "		p.sess.AddTopic(string(t), qos[i])\n\n		retcodes = append(retcodes, rqos)", "		retcodes = append(retcodes, rqos)")],
    ["C01/T5-co-update/SUBSCRIBE-loop:tree-and-session-paired"])
pos("C01", "matchqos-max", "delivery QoS becomes max(publish, granted)",
    [(MT, "		if eqos > sn.qos[i] {\n			eqos = sn.qos[i]", "		if eqos < sn.qos[i] {\n			eqos = sn.qos[i]")],
    ["C01/T7-min-idiom/matchQos"])
neg("C01", "neg-fanout-locals", "the fan-out loop with hoisted locals and an early continue",
    [(PROC, ONPUB_LOOP, """	for i, s := range p.subs {
		if s == nil {
			continue
		}
		q := p.qoss[i]
		cb := s.(*OnPublishFunc)
		msg.SetQoS(q)
		err := (*cb)(msg)
		if err != nil {
			log.Warningf("%v", err)
		}
	}
""")])
neg("C01", "neg-fanout-index-loop", "the fan-out loop as an index loop",
    [(PROC, ONPUB_LOOP, """	for i := 0; i < len(p.subs); i++ {
		s := p.subs[i]
		if s != nil {
			fn := s.(*OnPublishFunc)
			msg.SetQoS(p.qoss[i])
			if err := (*fn)(msg); err != nil {
				log.Warningf("%v", err)
			}
		}
	}
""")])
neg("C01", "neg-teardown-helper", "the teardown's unsubscribe loop extracted into a method",
    [(SVC, """			for _, t := range topics {
				if err := svc.topicsMgr.Unsubscribe([]byte(t), &svc.onpub); err != nil {
					log.Errorf("(%s) Unsubscribing topic %q failed: %v", svc.cid(), t, err)
				}
			}
""", """			svc.dropAll(topics)
"""),
     (SVC, "func (svc *service) isDone() bool {", """func (svc *service) dropAll(topics []string) {
	for _, t := range topics {
		if err := svc.topicsMgr.Unsubscribe([]byte(t), &svc.onpub); err != nil {
			log.Errorf("(%s) Unsubscribing topic %q failed: %v", svc.cid(), t, err)
		}
	}
}

func (svc *service) isDone() bool {""")])
neg("C01", "neg-subscribe-order", "session record written after the return code is appended",
    [(PROC, "		p.sess.AddTopic(string(t), qos[i])\n\n		retcodes = append(retcodes, rqos)", "		retcodes = append(retcodes, rqos)\n		p.sess.AddTopic(string(t), qos[i])")])
neg("C01", "neg-matchqos-else-form", "min written as if/else",
    [(MT, "		eqos := qos\n		if eqos > sn.qos[i] {\n			eqos = sn.qos[i]\n		}", "		var eqos byte\n		if qos > sn.qos[i] {\n			eqos = sn.qos[i]\n		} else {\n			eqos = qos\n		}")])
neg("C01", "neg-fanout-helper-loop", "the fan-out loop extracted into a method",
    [(PROC, ONPUB_LOOP, "	p.fanOut(msg)\n"),
     (PROC, "// onPublish() is called when the server receives a PUBLISH message AND have completed", """func (p *service) fanOut(msg *message.PublishMessage) {
""" + ONPUB_LOOP + """}

// onPublish() is called when the server receives a PUBLISH message AND have completed""")])
neg("C01", "neg-fanout-helper-body", "the fan-out loop body extracted into a method",
    [(PROC, ONPUB_LOOP, """	for i, s := range p.subs {
		if s != nil {
			p.deliverTo(s.(*OnPublishFunc), p.qoss[i], msg)
		}
	}
"""),
     (PROC, "// onPublish() is called when the server receives a PUBLISH message AND have completed", """func (p *service) deliverTo(fn *OnPublishFunc, q byte, msg *message.PublishMessage) {
	// use the possibly downgraded qos
	msg.SetQoS(q)
	if err := (*fn)(msg); err != nil {
		log.Warningf("%v", err)
	}
}

// onPublish() is called when the server receives a PUBLISH message AND have completed""")])

# ---------------------------------------------------------------- C02
pos("C02", "qos2-handed-on-at-publish", "a QoS 2 publish is handed on when it arrives and again at PUBREL",
    [(PROC, "		_, err := p.writeMessage(resp)\n		return err\n\n	case message.QosAtLeastOnce:",
      "		if _, err := p.writeMessage(resp); err != nil {\n			return err\n		}\n		return p.onPublish(msg)\n\n	case message.QosAtLeastOnce:")],
    ["C02/P2-case-contract/PUBLISH/QoS2:never(hand-over)"])
pos("C02", "pubrel-does-not-release", "PUBREL is acknowledged but the stored publish is never handed on",
    [(PROC, "		p.processAcked(p.sess.Pub2in)\n\n", "\n")],
    ["C02/P2-case-contract/PUBREL:must(release(Pub2in))"])
pos("C02", "pubcomp-wrong-id", "PUBCOMP carries another packet id",
    [(PROC, "		resp := message.NewPubcompMessage()\n		resp.SetPacketID(msg.PacketID())", "		resp := message.NewPubcompMessage()\n		resp.SetPacketID(msg.PacketID() + 1)")],
    ["C02/P3-ack-id/PUBREL:id(PUBCOMP)"])
pos("C02", "acked-releases-at-pubrec", "an outgoing QoS 2 publish is completed at PUBREC",
    [(AQ, "		case message.PUBACK, message.PUBREL, message.PUBCOMP, message.SUBACK, message.UNSUBACK:\n			aq.ackdone",
      "		case message.PUBACK, message.PUBREC, message.PUBREL, message.PUBCOMP, message.SUBACK, message.UNSUBACK:\n			aq.ackdone")],
    ["C02/T2-terminal-ack-tables/Acked:never-releases(PUBREC)"])
pos("C02", "release-loop-drops-pubrel", "released QoS 2 publishes fall into the default branch",
    [(PROC, "		case message.PUBREL:\n			// If ack is PUBREL", "		case message.PUBREC:\n			// If ack is PUBREL")],
    ["C02/P2-case-contract/release-loop:PUBREL=>hand-over"])
pos("C02", "dedup-only-for-id-zero", "a retransmitted QoS 2 publish is stored a second time",
    [(AQ, "	if _, ok := aq.emap[pktid]; !ok {", "	if _, ok := aq.emap[pktid]; !ok || pktid != 0 {")],
    ["C02/P5-order/insert:dedup-before-store"])
pos("C02", "grow-index-shifted", "after growing a wrapped queue the index map keeps the old positions",
    [(AQ, "	for i := int64(0); i < aq.tail; i++ {\n		aq.emap[aq.ring[i].Pktid] = i\n	}\n}", "	for i := int64(0); i < aq.tail; i++ {\n		aq.emap[aq.ring[i].Pktid] = (i + newsize/2) & newmask\n	}\n}")],
    ["C02/T5-co-update/(*sessions.Ackqueue).grow:index-entry-from-slot"])
neg("C02", "neg-qos2-explicit-return", "QoS 2 branch with an explicit error test",
    [(PROC, "		_, err := p.writeMessage(resp)\n		return err\n\n	case message.QosAtLeastOnce:",
      "		if _, err := p.writeMessage(resp); err != nil {\n			return err\n		}\n		return nil\n\n	case message.QosAtLeastOnce:")])
neg("C02", "neg-pubrel-nested", "PUBREL case written with a nested success branch",
    [(PROC, """		if err = p.sess.Pub2in.Ack(msg); err != nil {
			break
		}

		p.processAcked(p.sess.Pub2in)

		resp := message.NewPubcompMessage()
		resp.SetPacketID(msg.PacketID())
		_, err = p.writeMessage(resp)
""", """		err = p.sess.Pub2in.Ack(msg)
		if err == nil {
			p.processAcked(p.sess.Pub2in)

			id := msg.PacketID()
			resp := message.NewPubcompMessage()
			resp.SetPacketID(id)
			_, err = p.writeMessage(resp)
		}
""")])
neg("C02", "neg-pubrel-helper", "PUBREL case extracted into a method",
    [(PROC, """		if err = p.sess.Pub2in.Ack(msg); err != nil {
			break
		}

		p.processAcked(p.sess.Pub2in)

		resp := message.NewPubcompMessage()
		resp.SetPacketID(msg.PacketID())
		_, err = p.writeMessage(resp)
""", """		err = p.processPubrel(msg)
"""),
     (PROC, "func (p *service) processAcked(ackq *sessions.Ackqueue) {", """func (p *service) processPubrel(msg *message.PubrelMessage) error {
	if err := p.sess.Pub2in.Ack(msg); err != nil {
		return err
	}

	p.processAcked(p.sess.Pub2in)

	resp := message.NewPubcompMessage()
	resp.SetPacketID(msg.PacketID())
	_, err := p.writeMessage(resp)
	return err
}

func (p *service) processAcked(ackq *sessions.Ackqueue) {""")])
neg("C02", "neg-acked-if-form", "the release test of Acked written as an if",
    [(AQ, """		switch aq.ring[aq.head].State {
		case message.PUBACK, message.PUBREL, message.PUBCOMP, message.SUBACK, message.UNSUBACK:
			aq.ackdone = append(aq.ackdone, aq.ring[aq.head])
			aq.removeHead()

		default:
			break FORNOTEMPTY
		}
""", """		st := aq.ring[aq.head].State
		if st == message.PUBACK || st == message.PUBREL || st == message.PUBCOMP || st == message.SUBACK || st == message.UNSUBACK {
			aq.ackdone = append(aq.ackdone, aq.ring[aq.head])
			aq.removeHead()
		} else {
			break FORNOTEMPTY
		}
""")])
neg("C02", "neg-insert-early-return", "insert with the duplicate branch first",
    [(AQ, """	if _, ok := aq.emap[pktid]; !ok {
		// message length
		ml := msg.Len()

		// ackmsg
		am := AckMsg{
			Mtype:      msg.Type(),
			State:      message.RESERVED,
			Pktid:      msg.PacketID(),
			Msgbuf:     make([]byte, ml),
			OnComplete: onComplete,
		}

		if _, err := msg.Encode(am.Msgbuf); err != nil {
			return err
		}

		aq.ring[aq.tail] = am
		aq.emap[pktid] = aq.tail
		aq.tail = aq.increment(aq.tail)
		aq.count++
	} else {
		// If packet w/ pktid already exist, then this must be a PUBLISH message
		// Other message types should never send with the same packet ID
		pm, ok := msg.(*message.PublishMessage)
		if !ok {
			return fmt.Errorf("ack/insert: duplicate packet ID for %s message", msg.Name())
		}

		// If this is a publish message, then the DUP flag must be set. This is the
		// only scenario in which we will receive duplicate messages.
		if pm.Dup() {
			return fmt.Errorf("ack/insert: duplicate packet ID for PUBLISH message, but DUP flag is not set")
		}

		// Since it's a dup, there's really nothing we need to do. Moving on...
	}

	return nil
}""", """	if _, dup := aq.emap[pktid]; dup {
		pm, ok := msg.(*message.PublishMessage)
		if !ok {
			return fmt.Errorf("ack/insert: duplicate packet ID for %s message", msg.Name())
		}
		if pm.Dup() {
			return fmt.Errorf("ack/insert: duplicate packet ID for PUBLISH message, but DUP flag is not set")
		}
		return nil
	}

	buf := make([]byte, msg.Len())
	if _, err := msg.Encode(buf); err != nil {
		return err
	}

	slot := aq.tail
	aq.ring[slot] = AckMsg{
		Mtype:      msg.Type(),
		State:      message.RESERVED,
		Pktid:      msg.PacketID(),
		Msgbuf:     buf,
		OnComplete: onComplete,
	}
	aq.emap[pktid] = slot
	aq.count++
	aq.tail = aq.increment(slot)

	return nil
}""")])
neg("C02", "neg-removehead-order", "index entry deleted before the head moves",
    [(AQ, """	it := aq.ring[aq.head]
	// set this to empty ackmsg{} to ensure GC will collect the buffer
	aq.ring[aq.head] = AckMsg{}
	aq.head = aq.increment(aq.head)
	aq.count--
	delete(aq.emap, it.Pktid)
""", """	delete(aq.emap, aq.ring[aq.head].Pktid)
	// set this to empty ackmsg{} to ensure GC will collect the buffer
	aq.ring[aq.head] = AckMsg{}
	aq.count--
	aq.head = aq.increment(aq.head)
""")])
neg("C02", "neg-grow-count-bound", "grow re-indexes up to count",
    [(AQ, "	for i := int64(0); i < aq.tail; i++ {\n		aq.emap[aq.ring[i].Pktid] = i", "	for i := int64(0); i < aq.count; i++ {\n		aq.emap[aq.ring[i].Pktid] = i")])

# ---------------------------------------------------------------- C03
HDR = "message/header.go"
PUB = "message/publish.go"
MSG = "message/message.go"
pos("C03", "setpayload-not-dirty", "a decoded message keeps encoding the old payload",
    [(PUB, "	m.payload = v\n	m.dirty = true\n", "	m.payload = v\n")],
    ["C03/T3-dirty-discipline/(*message.PublishMessage).SetPayload:store(payload)->dirty"])
pos("C03", "varint-threshold-off-by-one", "remaining length 16384 is given two length bytes",
    [(HDR, "	} else if h.remlen <= 16383 {", "	} else if h.remlen <= 16384 {")],
    ["C03/T1-type-tables/header.msglen:varint-thresholds"])
pos("C03", "auto-id-may-be-zero", "the fix of 1663d1e undone",
    [(HDR, "		if id := uint16(atomic.AddUint64(&gPacketID, 1) & 0xffff); id != 0 {\n			return id\n		}",
      "		id := uint16(atomic.AddUint64(&gPacketID, 1) & 0xffff)\n		return id")],
    ["C03/B5-nonzero-id/"])
pos("C03", "dbuf-keeps-whole-input", "the fix of bb44c24 undone",
    [(HDR, "	h.dbuf = src[:total+int(h.remlen)]\n", "	h.dbuf = src\n")],
    ["C03/B9-decode-buffer-exact/header.decode"])
pos("C03", "len-header-before-remlen", "Len() sizes the header for the previous remaining length",
    [(PUB, "	ml := m.msglen()\n\n	if err := m.SetRemainingLength(int32(ml)); err != nil {\n		return 0\n	}\n\n	return m.header.msglen() + ml",
      "	ml := m.msglen()\n	hl := m.header.msglen()\n\n	if err := m.SetRemainingLength(int32(ml)); err != nil {\n		return 0\n	}\n\n	return hl + ml")],
    ["C03/T3-dirty-discipline/(*message.PublishMessage).Len:header-length-after-remaining-length"])
pos("C03", "setretain-clears-qos-bit", "clearing RETAIN also clears a QoS bit",
    [(PUB, "		m.mtypeflags[0] &= 254 // 11111110", "		m.mtypeflags[0] &= 252 // 11111100")],
    ["C03/T1-type-tables/PublishMessage.SetRetain:writes-only-bits(0x1)"])
pos("C03", "subscribe-default-flags", "SUBSCRIBE is built with reserved flags 0",
    [(MSG, "	case SUBSCRIBE:\n		return 2\n	case SUBACK:\n		return 0", "	case SUBSCRIBE:\n		return 0\n	case SUBACK:\n		return 0")],
    ["C03/T1-type-tables/Type.DefaultFlags:spec-values"])
neg("C03", "neg-setqos-rewritten", "SetQoS with and-not mask and a boolean local",
    [(PUB, "	p := m.QoS()\n	m.mtypeflags[0] = (m.mtypeflags[0] & 249) | (v << 1) // 249 = 11111001\n\n	// QoS can change length of message (QoS 0: without packet ID, Qos 1 and 2:\n	// with packet ID)\n	if (p > 0) != (v > 0) {\n		m.dirty = true\n	}",
      "	hadID := m.QoS() > 0\n	m.mtypeflags[0] = (m.mtypeflags[0] &^ 0x6) | (v << 1)\n	if hadID != (v > 0) {\n		m.dirty = true\n	}")])
neg("C03", "neg-setqos-always-dirty", "SetQoS marks the message dirty unconditionally (more conservative)",
    [(PUB, "	if (p > 0) != (v > 0) {\n		m.dirty = true\n	}", "	_ = p\n	m.dirty = true")])
neg("C03", "neg-settopic-dirty-first", "dirty set before the store",
    [(PUB, "	m.topic = v\n	m.dirty = true\n", "	m.dirty = true\n	m.topic = v\n")])
neg("C03", "neg-msglen-switch", "msglen as a switch with strict comparisons",
    [(HDR, "	if h.remlen <= 127 {\n		total++\n	} else if h.remlen <= 16383 {\n		total += 2\n	} else if h.remlen <= 2097151 {\n		total += 3\n	} else {\n		total += 4\n	}",
      "	switch {\n	case h.remlen < 128:\n		total++\n	case h.remlen < 16384:\n		total += 2\n	case h.remlen < 2097152:\n		total += 3\n	default:\n		total += 4\n	}")])
neg("C03", "neg-len-locals", "Len with the header length in a local computed after the remaining length",
    [(PUB, "	ml := m.msglen()\n\n	if err := m.SetRemainingLength(int32(ml)); err != nil {\n		return 0\n	}\n\n	return m.header.msglen() + ml",
      "	ml := m.msglen()\n	err := m.SetRemainingLength(int32(ml))\n	if err != nil {\n		return 0\n	}\n	hl := m.header.msglen()\n	return ml + hl")])
neg("C03", "neg-setdup-andnot", "flag cleared with &^=",
    [(PUB, "		m.mtypeflags[0] &= 247 // 11110111", "		m.mtypeflags[0] &^= 0x8")])
neg("C03", "neg-nextid-modulo", "automatic ids computed as (n % 65535) + 1",
    [(HDR, "	for {\n		if id := uint16(atomic.AddUint64(&gPacketID, 1) & 0xffff); id != 0 {\n			return id\n		}\n	}",
      "	return uint16(atomic.AddUint64(&gPacketID, 1)%65535) + 1")])


def main():
    os.makedirs(OUT, exist_ok=True)
    for prop, cs in sorted(C.items()):
        with open(os.path.join(OUT, prop + ".json"), "w") as f:
            json.dump(cs, f, indent=1)
            f.write("\n")
        print(prop, len(cs), "controls")


if __name__ == "__main__":
    main()
