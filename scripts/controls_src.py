#!/usr/bin/env python3
"""Source of /verif/controls/<id>.json (run: python3 scripts/controls_src.py).

A control is an exact-text edit of /repo applied to a scratch copy by
`mqttcheck -tier thorough` (or -controls): a *positive* control must flip the
named obligations to violated, a *negative* control is a behaviour-preserving
edit and must leave the check silent.  C04.json and C15.json were written by
hand earlier and are not generated here.
"""
import json, os, sys

HERE = os.path.dirname(os.path.abspath(__file__))
OUT = os.path.join(HERE, "..", "controls")

C = {}


def mk_edit(e):
    d = dict(file=e[0], old=e[1], new=e[2])
    if len(e) == 5:
        d["nth"], d["of"] = e[3], e[4]
    return d


def pos(prop, name, why, edits, expect):
    C.setdefault(prop, []).append(dict(name=name, kind="positive", why=why,
                                       edits=[mk_edit(e) for e in edits], expect=expect))


def neg(prop, name, why, edits):
    C.setdefault(prop, []).append(dict(name=name, kind="negative", why=why,
                                       edits=[mk_edit(e) for e in edits]))


PROC = "service/process.go"
SVC = "service/service.go"
SRV = "service/server.go"
CLI = "service/client.go"
SR = "service/sendrecv.go"
BUF = "service/buffer.go"
MT = "topics/memtopics.go"
AQ = "sessions/ackqueue.go"
SESS = "sessions/session.go"

ONPUB_LOOP = """	for i, s := range p.subs {
		if s != nil {
			fn := s.(*OnPublishFunc)
			// use the possibly downgraded qos
			msg.SetQoS(p.qoss[i])
			if err := (*fn)(msg); err != nil {
				log.Warningf("%v", err)
			}
		}
	}
"""

# ---------------------------------------------------------------- C01
pos("C01", "fanout-drops-setqos", "subscribers receive the publisher's QoS instead of min(publish, granted)",
    [(PROC, ONPUB_LOOP, ONPUB_LOOP.replace("msg.SetQoS(p.qoss[i])", "_ = p.qoss[i]"))],
    ["C01/P4-loop-contract/onPublish:fan-out:per-subscriber-qos"])
pos("C01", "fanout-stops-at-first-error", "one failing subscriber (a closed connection) ends the delivery to all later ones",
    [(PROC, ONPUB_LOOP, ONPUB_LOOP.replace('				log.Warningf("%v", err)\n', '				return err\n'))],
    ["C01/P4-loop-contract/onPublish:fan-out:ranges-over-matched-subscribers"])
pos("C01", "teardown-keeps-subscriptions", "the server side no longer deregisters a closing connection",
    [(SVC, "	if !svc.client && svc.sess != nil {\n		topics, _, err := svc.sess.Topics()",
      "	if svc.client && svc.sess != nil {\n		topics, _, err := svc.sess.Topics()")],
    ["C01/P8-guard-contract/teardown:unsubscribe-all(server)"])
pos("C01", "restore-uses-other-token", "restored subscriptions are registered under a token teardown cannot remove",
    [(SVC, "			svc.topicsMgr.Subscribe([]byte(t), qoss[i], &svc.onpub)", "			svc.topicsMgr.Subscribe([]byte(t), qoss[i], svc.onpub)")],
    ["C01/P9-who-may/start:Subscribe-token"])
pos("C01", "subscribe-not-recorded-in-session", "the tree is updated but the session record is not: teardown leaves the subscription behind",
    [(PROC, "		p.sess.AddTopic(string(t), qos[i])\n\n		retcodes = append(retcodes, rqos)", "		retcodes = append(retcodes, rqos)")],
    ["C01/T5-co-update/SUBSCRIBE-loop:tree-and-session-paired"])
pos("C01", "matchqos-max", "delivery QoS becomes max(publish, granted)",
    [(MT, "		if eqos > sn.qos[i] {\n			eqos = sn.qos[i]", "		if eqos < sn.qos[i] {\n			eqos = sn.qos[i]")],
    ["C01/T7-min-idiom/matchQos"])
neg("C01", "neg-fanout-locals", "the fan-out loop with hoisted locals and an early continue",
    [(PROC, ONPUB_LOOP, """	for i, s := range p.subs {
		if s == nil {
			continue
		}
		q := p.qoss[i]
		cb := s.(*OnPublishFunc)
		msg.SetQoS(q)
		err := (*cb)(msg)
		if err != nil {
			log.Warningf("%v", err)
		}
	}
""")])
neg("C01", "neg-fanout-index-loop", "the fan-out loop as an index loop",
    [(PROC, ONPUB_LOOP, """	for i := 0; i < len(p.subs); i++ {
		s := p.subs[i]
		if s != nil {
			fn := s.(*OnPublishFunc)
			msg.SetQoS(p.qoss[i])
			if err := (*fn)(msg); err != nil {
				log.Warningf("%v", err)
			}
		}
	}
""")])
neg("C01", "neg-teardown-helper", "the teardown's unsubscribe loop extracted into a method",
    [(SVC, """			for _, t := range topics {
				if err := svc.topicsMgr.Unsubscribe([]byte(t), &svc.onpub); err != nil {
					log.Errorf("(%s) Unsubscribing topic %q failed: %v", svc.cid(), t, err)
				}
			}
""", """			svc.dropAll(topics)
"""),
     (SVC, "func (svc *service) isDone() bool {", """func (svc *service) dropAll(topics []string) {
	for _, t := range topics {
		if err := svc.topicsMgr.Unsubscribe([]byte(t), &svc.onpub); err != nil {
			log.Errorf("(%s) Unsubscribing topic %q failed: %v", svc.cid(), t, err)
		}
	}
}

func (svc *service) isDone() bool {""")])
neg("C01", "neg-subscribe-order", "session record written after the return code is appended",
    [(PROC, "		p.sess.AddTopic(string(t), qos[i])\n\n		retcodes = append(retcodes, rqos)", "		retcodes = append(retcodes, rqos)\n		p.sess.AddTopic(string(t), qos[i])")])
neg("C01", "neg-matchqos-else-form", "min written as if/else",
    [(MT, "		eqos := qos\n		if eqos > sn.qos[i] {\n			eqos = sn.qos[i]\n		}", "		var eqos byte\n		if qos > sn.qos[i] {\n			eqos = sn.qos[i]\n		} else {\n			eqos = qos\n		}")])
neg("C01", "neg-fanout-helper-loop", "the fan-out loop extracted into a method",
    [(PROC, ONPUB_LOOP, "	p.fanOut(msg)\n"),
     (PROC, "// onPublish() is called when the server receives a PUBLISH message AND have completed", """func (p *service) fanOut(msg *message.PublishMessage) {
""" + ONPUB_LOOP + """}

// onPublish() is called when the server receives a PUBLISH message AND have completed""")])
neg("C01", "neg-fanout-helper-body", "the fan-out loop body extracted into a method",
    [(PROC, ONPUB_LOOP, """	for i, s := range p.subs {
		if s != nil {
			p.deliverTo(s.(*OnPublishFunc), p.qoss[i], msg)
		}
	}
"""),
     (PROC, "// onPublish() is called when the server receives a PUBLISH message AND have completed", """func (p *service) deliverTo(fn *OnPublishFunc, q byte, msg *message.PublishMessage) {
	// use the possibly downgraded qos
	msg.SetQoS(q)
	if err := (*fn)(msg); err != nil {
		log.Warningf("%v", err)
	}
}

// onPublish() is called when the server receives a PUBLISH message AND have completed""")])

# ---------------------------------------------------------------- C02
pos("C02", "qos2-handed-on-at-publish", "a QoS 2 publish is handed on when it arrives and again at PUBREL",
    [(PROC, "		_, err := p.writeMessage(resp)\n		return err\n\n	case message.QosAtLeastOnce:",
      "		if _, err := p.writeMessage(resp); err != nil {\n			return err\n		}\n		return p.onPublish(msg)\n\n	case message.QosAtLeastOnce:")],
    ["C02/P2-case-contract/PUBLISH/QoS2:never(hand-over)"])
pos("C02", "pubrel-does-not-release", "PUBREL is acknowledged but the stored publish is never handed on",
    [(PROC, "		p.processAcked(p.sess.Pub2in)\n\n", "\n")],
    ["C02/P2-case-contract/PUBREL:must(release(Pub2in))"])
pos("C02", "pubcomp-wrong-id", "PUBCOMP carries another packet id",
    [(PROC, "		resp := message.NewPubcompMessage()\n		resp.SetPacketID(msg.PacketID())", "		resp := message.NewPubcompMessage()\n		resp.SetPacketID(msg.PacketID() + 1)")],
    ["C02/P3-ack-id/PUBREL:id(PUBCOMP)"])
pos("C02", "acked-releases-at-pubrec", "an outgoing QoS 2 publish is completed at PUBREC",
    [(AQ, "		case message.PUBACK, message.PUBREL, message.PUBCOMP, message.SUBACK, message.UNSUBACK:\n			aq.ackdone",
      "		case message.PUBACK, message.PUBREC, message.PUBREL, message.PUBCOMP, message.SUBACK, message.UNSUBACK:\n			aq.ackdone")],
    ["C02/T2-terminal-ack-tables/Acked:never-releases(PUBREC)"])
pos("C02", "release-loop-drops-pubrel", "released QoS 2 publishes fall into the default branch",
    [(PROC, "		case message.PUBREL:\n			// If ack is PUBREL", "		case message.PUBREC:\n			// If ack is PUBREL")],
    ["C02/P2-case-contract/release-loop:PUBREL=>hand-over"])
pos("C02", "dedup-only-for-id-zero", "a retransmitted QoS 2 publish is stored a second time",
    [(AQ, "	if _, ok := aq.emap[pktid]; !ok {", "	if _, ok := aq.emap[pktid]; !ok || pktid != 0 {")],
    ["C02/P5-order/insert:dedup-before-store"])
pos("C02", "grow-index-shifted", "after growing a wrapped queue the index map keeps the old positions",
    [(AQ, "	for i := int64(0); i < aq.tail; i++ {\n		aq.emap[aq.ring[i].Pktid] = i\n	}\n}", "	for i := int64(0); i < aq.tail; i++ {\n		aq.emap[aq.ring[i].Pktid] = (i + newsize/2) & newmask\n	}\n}")],
    ["C02/T5-co-update/(*sessions.Ackqueue).grow:index-entry-from-slot"])
neg("C02", "neg-qos2-explicit-return", "QoS 2 branch with an explicit error test",
    [(PROC, "		_, err := p.writeMessage(resp)\n		return err\n\n	case message.QosAtLeastOnce:",
      "		if _, err := p.writeMessage(resp); err != nil {\n			return err\n		}\n		return nil\n\n	case message.QosAtLeastOnce:")])
neg("C02", "neg-pubrel-nested", "PUBREL case written with a nested success branch",
    [(PROC, """		if err = p.sess.Pub2in.Ack(msg); err != nil {
			break
		}

		p.processAcked(p.sess.Pub2in)

		resp := message.NewPubcompMessage()
		resp.SetPacketID(msg.PacketID())
		_, err = p.writeMessage(resp)
""", """		err = p.sess.Pub2in.Ack(msg)
		if err == nil {
			p.processAcked(p.sess.Pub2in)

			id := msg.PacketID()
			resp := message.NewPubcompMessage()
			resp.SetPacketID(id)
			_, err = p.writeMessage(resp)
		}
""")])
neg("C02", "neg-pubrel-helper", "PUBREL case extracted into a method",
    [(PROC, """		if err = p.sess.Pub2in.Ack(msg); err != nil {
			break
		}

		p.processAcked(p.sess.Pub2in)

		resp := message.NewPubcompMessage()
		resp.SetPacketID(msg.PacketID())
		_, err = p.writeMessage(resp)
""", """		err = p.processPubrel(msg)
"""),
     (PROC, "func (p *service) processAcked(ackq *sessions.Ackqueue) {", """func (p *service) processPubrel(msg *message.PubrelMessage) error {
	if err := p.sess.Pub2in.Ack(msg); err != nil {
		return err
	}

	p.processAcked(p.sess.Pub2in)

	resp := message.NewPubcompMessage()
	resp.SetPacketID(msg.PacketID())
	_, err := p.writeMessage(resp)
	return err
}

func (p *service) processAcked(ackq *sessions.Ackqueue) {""")])
neg("C02", "neg-acked-if-form", "the release test of Acked written as an if",
    [(AQ, """		switch aq.ring[aq.head].State {
		case message.PUBACK, message.PUBREL, message.PUBCOMP, message.SUBACK, message.UNSUBACK:
			aq.ackdone = append(aq.ackdone, aq.ring[aq.head])
			aq.removeHead()

		default:
			break FORNOTEMPTY
		}
""", """		st := aq.ring[aq.head].State
		if st == message.PUBACK || st == message.PUBREL || st == message.PUBCOMP || st == message.SUBACK || st == message.UNSUBACK {
			aq.ackdone = append(aq.ackdone, aq.ring[aq.head])
			aq.removeHead()
		} else {
			break FORNOTEMPTY
		}
""")])
neg("C02", "neg-insert-early-return", "insert with the duplicate branch first",
    [(AQ, """	if _, ok := aq.emap[pktid]; !ok {
		// message length
		ml := msg.Len()

		// ackmsg
		am := AckMsg{
			Mtype:      msg.Type(),
			State:      message.RESERVED,
			Pktid:      msg.PacketID(),
			Msgbuf:     make([]byte, ml),
			OnComplete: onComplete,
		}

		if _, err := msg.Encode(am.Msgbuf); err != nil {
			return err
		}

		aq.ring[aq.tail] = am
		aq.emap[pktid] = aq.tail
		aq.tail = aq.increment(aq.tail)
		aq.count++
	} else {
		// If packet w/ pktid already exist, then this must be a PUBLISH message
		// Other message types should never send with the same packet ID
		pm, ok := msg.(*message.PublishMessage)
		if !ok {
			return fmt.Errorf("ack/insert: duplicate packet ID for %s message", msg.Name())
		}

		// If this is a publish message, then the DUP flag must be set. This is the
		// only scenario in which we will receive duplicate messages.
		if pm.Dup() {
			return fmt.Errorf("ack/insert: duplicate packet ID for PUBLISH message, but DUP flag is not set")
		}

		// Since it's a dup, there's really nothing we need to do. Moving on...
	}

	return nil
}""", """	if _, dup := aq.emap[pktid]; dup {
		pm, ok := msg.(*message.PublishMessage)
		if !ok {
			return fmt.Errorf("ack/insert: duplicate packet ID for %s message", msg.Name())
		}
		if pm.Dup() {
			return fmt.Errorf("ack/insert: duplicate packet ID for PUBLISH message, but DUP flag is not set")
		}
		return nil
	}

	buf := make([]byte, msg.Len())
	if _, err := msg.Encode(buf); err != nil {
		return err
	}

	slot := aq.tail
	aq.ring[slot] = AckMsg{
		Mtype:      msg.Type(),
		State:      message.RESERVED,
		Pktid:      msg.PacketID(),
		Msgbuf:     buf,
		OnComplete: onComplete,
	}
	aq.emap[pktid] = slot
	aq.count++
	aq.tail = aq.increment(slot)

	return nil
}""")])
neg("C02", "neg-removehead-order", "index entry deleted before the head moves",
    [(AQ, """	it := aq.ring[aq.head]
	// set this to empty ackmsg{} to ensure GC will collect the buffer
	aq.ring[aq.head] = AckMsg{}
	aq.head = aq.increment(aq.head)
	aq.count--
	delete(aq.emap, it.Pktid)
""", """	delete(aq.emap, aq.ring[aq.head].Pktid)
	// set this to empty ackmsg{} to ensure GC will collect the buffer
	aq.ring[aq.head] = AckMsg{}
	aq.count--
	aq.head = aq.increment(aq.head)
""")])
neg("C02", "neg-grow-count-bound", "grow re-indexes up to count",
    [(AQ, "	for i := int64(0); i < aq.tail; i++ {\n		aq.emap[aq.ring[i].Pktid] = i", "	for i := int64(0); i < aq.count; i++ {\n		aq.emap[aq.ring[i].Pktid] = i")])

# ---------------------------------------------------------------- C03
HDR = "message/header.go"
PUB = "message/publish.go"
MSG = "message/message.go"
pos("C03", "setpayload-not-dirty", "a decoded message keeps encoding the old payload",
    [(PUB, "	m.payload = v\n	m.dirty = true\n", "	m.payload = v\n")],
    ["C03/T3-dirty-discipline/(*message.PublishMessage).SetPayload:store(payload)->dirty"])
pos("C03", "varint-threshold-off-by-one", "remaining length 16384 is given two length bytes",
    [(HDR, "	} else if h.remlen <= 16383 {", "	} else if h.remlen <= 16384 {")],
    ["C03/T1-type-tables/header.msglen:varint-thresholds"])
pos("C03", "auto-id-may-be-zero", "the fix of 1663d1e undone",
    [(HDR, "		if id := uint16(atomic.AddUint64(&gPacketID, 1) & 0xffff); id != 0 {\n			return id\n		}",
      "		id := uint16(atomic.AddUint64(&gPacketID, 1) & 0xffff)\n		return id")],
    ["C03/B5-nonzero-id/"])
pos("C03", "dbuf-keeps-whole-input", "the fix of bb44c24 undone",
    [(HDR, "	h.dbuf = src[:total+int(h.remlen)]\n", "	h.dbuf = src\n")],
    ["C03/B9-decode-buffer-exact/header.decode"])
pos("C03", "len-header-before-remlen", "Len() sizes the header for the previous remaining length",
    [(PUB, "	ml := m.msglen()\n\n	if err := m.SetRemainingLength(int32(ml)); err != nil {\n		return 0\n	}\n\n	return m.header.msglen() + ml",
      "	ml := m.msglen()\n	hl := m.header.msglen()\n\n	if err := m.SetRemainingLength(int32(ml)); err != nil {\n		return 0\n	}\n\n	return hl + ml")],
    ["C03/T3-dirty-discipline/(*message.PublishMessage).Len:header-length-after-remaining-length"])
pos("C03", "setretain-clears-qos-bit", "clearing RETAIN also clears a QoS bit",
    [(PUB, "		m.mtypeflags[0] &= 254 // 11111110", "		m.mtypeflags[0] &= 252 // 11111100")],
    ["C03/T1-type-tables/PublishMessage.SetRetain:writes-only-bits(0x1)"])
pos("C03", "subscribe-default-flags", "SUBSCRIBE is built with reserved flags 0",
    [(MSG, "	case SUBSCRIBE:\n		return 2\n	case SUBACK:\n		return 0", "	case SUBSCRIBE:\n		return 0\n	case SUBACK:\n		return 0")],
    ["C03/T1-type-tables/Type.DefaultFlags:spec-values"])
neg("C03", "neg-setqos-rewritten", "SetQoS with and-not mask and a boolean local",
    [(PUB, "	p := m.QoS()\n	m.mtypeflags[0] = (m.mtypeflags[0] & 249) | (v << 1) // 249 = 11111001\n\n	// QoS can change length of message (QoS 0: without packet ID, Qos 1 and 2:\n	// with packet ID)\n	if (p > 0) != (v > 0) {\n		m.dirty = true\n	}",
      "	hadID := m.QoS() > 0\n	m.mtypeflags[0] = (m.mtypeflags[0] &^ 0x6) | (v << 1)\n	if hadID != (v > 0) {\n		m.dirty = true\n	}")])
neg("C03", "neg-setqos-always-dirty", "SetQoS marks the message dirty unconditionally (more conservative)",
    [(PUB, "	if (p > 0) != (v > 0) {\n		m.dirty = true\n	}", "	_ = p\n	m.dirty = true")])
neg("C03", "neg-settopic-dirty-first", "dirty set before the store",
    [(PUB, "	m.topic = v\n	m.dirty = true\n", "	m.dirty = true\n	m.topic = v\n")])
neg("C03", "neg-msglen-switch", "msglen as a switch with strict comparisons",
    [(HDR, "	if h.remlen <= 127 {\n		total++\n	} else if h.remlen <= 16383 {\n		total += 2\n	} else if h.remlen <= 2097151 {\n		total += 3\n	} else {\n		total += 4\n	}",
      "	switch {\n	case h.remlen < 128:\n		total++\n	case h.remlen < 16384:\n		total += 2\n	case h.remlen < 2097152:\n		total += 3\n	default:\n		total += 4\n	}")])
neg("C03", "neg-len-locals", "Len with the header length in a local computed after the remaining length",
    [(PUB, "	ml := m.msglen()\n\n	if err := m.SetRemainingLength(int32(ml)); err != nil {\n		return 0\n	}\n\n	return m.header.msglen() + ml",
      "	ml := m.msglen()\n	err := m.SetRemainingLength(int32(ml))\n	if err != nil {\n		return 0\n	}\n	hl := m.header.msglen()\n	return ml + hl")])
neg("C03", "neg-setdup-andnot", "flag cleared with &^=",
    [(PUB, "		m.mtypeflags[0] &= 247 // 11110111", "		m.mtypeflags[0] &^= 0x8")])
neg("C03", "neg-nextid-modulo", "automatic ids computed as (n % 65535) + 1",
    [(HDR, "	for {\n		if id := uint16(atomic.AddUint64(&gPacketID, 1) & 0xffff); id != 0 {\n			return id\n		}\n	}",
      "	return uint16(atomic.AddUint64(&gPacketID, 1)%65535) + 1")])

# ---------------------------------------------------------------- C05
MISC = "service/misc.go"
PEEK_ERR = """		msg, n, err := p.peekMessage(mtype, total)
		if err != nil {
			if !isEOF(err) {
				log.Warningf("(%s) Error peeking next message: %v", p.cid(), err)
			}
			return
		}
"""
pos("C05", "processor-spins-on-malformed-packet", "a packet that does not decode is retried forever instead of ending the connection",
    [(PROC, PEEK_ERR, PEEK_ERR.replace("			return\n", "			continue\n"))],
    ["C05/P6-on-all-exits/processor:error-of-peekMessage-ends-connection"])
pos("C05", "framing-reader-unbounded-allocation", "the handshake reader allocates whatever the length field says",
    [(MISC, "	if remlen > maxRemainingLength {\n		return nil, fmt.Errorf(\"connect/getMessage: remaining length (%d) out of bound (max %d)\", remlen, maxRemainingLength)\n	}\n", ""),
     (MISC, "		if l > 4 {", "		if l > 9 {")],
    ["C05/B4-bounded-allocation/getMessageBuffer"])
pos("C05", "receiver-ignores-read-error", "the receiver keeps calling ReadFrom on a dead connection",
    [(SR, """			_, err := svc.in.ReadFrom(r)

			if err != nil {
				if !isEOF(err) {
					log.Debugf("(%s) Reading from connection failed: %v", svc.cid(), err)
				}
				return
			}
""", """			_, err := svc.in.ReadFrom(r)

			if err != nil {
				if !isEOF(err) {
					log.Debugf("(%s) Reading from connection failed: %v", svc.cid(), err)
				}
			}
""")],
    ["C05/P6-on-all-exits/pump:receiver:leaves-loop-on-error"])
pos("C05", "readfrom-keeps-ring-open", "the receiving pump ends without closing the ring: the processor waits forever",
    [(BUF, "func (bf *buffer) ReadFrom(r io.Reader) (int64, error) {\n	defer bf.Close()\n", "func (bf *buffer) ReadFrom(r io.Reader) (int64, error) {\n")],
    ["C05/P6-on-all-exits/pump:ReadFrom:closes-ring-on-every-exit"])
pos("C05", "sremove-prunes-node-with-children", "removing a subscription deletes the subtree of deeper subscriptions",
    [(MT, "	if len(n.subs) == 0 && len(n.snodes) == 0 {\n		delete(sn.snodes, level)", "	if len(n.subs) == 0 {\n		delete(sn.snodes, level)")],
    ["C05/T4-prune-guard-complete/sremove"])
pos("C05", "publish-decoder-drops-length-check", "a C04 decoder control seen from C05",
    [(PUB, "	if l < 0 {\n		return total, fmt.Errorf(\"publish/Decode: Remaining length (%d) is shorter than the variable header (%d)\", m.remlen, total-hn)\n	}\n", "")],
    ["C05/B1-in-bounds/(*message.PublishMessage).Decode:slice"])
neg("C05", "neg-processor-error-helper", "processor error exits through a helper that logs",
    [(PROC, PEEK_ERR, """		msg, n, err := p.peekMessage(mtype, total)
		if err != nil {
			p.logUnlessEOF("Error peeking next message", err)
			return
		}
"""),
     (PROC, "func (p *service) processIncoming(msg message.Message) error {", """func (p *service) logUnlessEOF(what string, err error) {
	if !isEOF(err) {
		log.Warningf("(%s) %s: %v", p.cid(), what, err)
	}
}

func (p *service) processIncoming(msg message.Message) error {""")])
neg("C05", "neg-receiver-break", "receiver leaves its loop with break",
    [(SR, """				if !isEOF(err) {
					log.Debugf("(%s) Reading from connection failed: %v", svc.cid(), err)
				}
				return
			}
		}

	default:
		log.Errorf("(%s) %v", svc.cid(), ErrInvalidConnectionType)""", """				if !isEOF(err) {
					log.Debugf("(%s) Reading from connection failed: %v", svc.cid(), err)
				}
				break
			}
		}

	default:
		log.Errorf("(%s) %v", svc.cid(), ErrInvalidConnectionType)""")])
neg("C05", "neg-framing-reader-ge", "length-byte limit written as l >= 5",
    [(MISC, "		if l > 4 {", "		if l >= 5 {")])
neg("C05", "neg-sremove-prune-helper", "prune condition in a method",
    [(MT, "	if len(n.subs) == 0 && len(n.snodes) == 0 {\n		delete(sn.snodes, level)", "	if n.isEmpty() {\n		delete(sn.snodes, level)"),
     (MT, "func (sn *snode) sremove(topic []byte, sub interface{}) error {", "func (sn *snode) isEmpty() bool {\n	return len(sn.subs) == 0 && len(sn.snodes) == 0\n}\n\nfunc (sn *snode) sremove(topic []byte, sub interface{}) error {")])
neg("C05", "neg-readfrom-explicit-close", "ReadFrom closes the ring through a deferred closure",
    [(BUF, "func (bf *buffer) ReadFrom(r io.Reader) (int64, error) {\n	defer bf.Close()\n", "func (bf *buffer) ReadFrom(r io.Reader) (int64, error) {\n	defer func() {\n		bf.Close()\n	}()\n")])

# ---------------------------------------------------------------- C06
pos("C06", "sinsert-appends-duplicate", "a re-subscription is appended instead of replacing the entry",
    [(MT, "			if equal(sn.subs[i], sub) {\n				sn.qos[i] = qos\n				return nil\n			}\n		}\n\n		// Otherwise add.", "			if equal(sn.subs[i], sub) {\n				sn.qos[i] = qos\n				break\n			}\n		}\n\n		// Otherwise add.")],
    ["C06/P4-loop-contract/sinsert:replace-not-append"])
pos("C06", "sremove-lists-out-of-step", "subscriber list and QoS list shrink differently",
    [(MT, "				sn.qos = append(sn.qos[:i], sn.qos[i+1:]...)\n				return nil", "				sn.qos = sn.qos[:len(sn.qos)-1]\n				return nil")],
    ["C06/T5-co-update/sremove:parallel-lists-shrink-alike"])
pos("C06", "subscribe-grants-requested", "the granted QoS is no longer capped",
    [(MT, "	if qos > MaxQosAllowed {\n		qos = MaxQosAllowed\n	}", "	if qos < MaxQosAllowed {\n		qos = MaxQosAllowed\n	}")],
    ["C06/T7-min-idiom/MemTopics.Subscribe:granted=min(requested,max)"])
pos("C06", "subscribe-mutates-before-validation", "a nil subscriber is inserted before it is rejected",
    [(MT, "	if sub == nil {\n		return message.QosFailure, fmt.Errorf(\"Subscriber cannot be nil\")\n	}\n\n	mt.smu.Lock()\n	defer mt.smu.Unlock()\n\n	if qos > MaxQosAllowed {\n		qos = MaxQosAllowed\n	}\n\n	if err := mt.sroot.sinsert(topic, qos, sub); err != nil {\n		return message.QosFailure, err\n	}\n",
      "	mt.smu.Lock()\n	defer mt.smu.Unlock()\n\n	if qos > MaxQosAllowed {\n		qos = MaxQosAllowed\n	}\n\n	if err := mt.sroot.sinsert(topic, qos, sub); err != nil {\n		return message.QosFailure, err\n	}\n\n	if sub == nil {\n		return message.QosFailure, fmt.Errorf(\"Subscriber cannot be nil\")\n	}\n")],
    ["C06/P5-order/MemTopics.Subscribe:rejects(anilsubscriber)"])
pos("C06", "unsubscribe-without-lock", "the tree is modified outside the subscription lock",
    [(MT, "func (mt *MemTopics) Unsubscribe(topic []byte, sub interface{}) error {\n	mt.smu.Lock()\n	defer mt.smu.Unlock()\n", "func (mt *MemTopics) Unsubscribe(topic []byte, sub interface{}) error {\n")],
    ["C06/G1-guarded-by/MemTopics.Unsubscribe:sremove-under-MemTopics.smu"])
neg("C06", "neg-sinsert-found-flag", "sinsert with a found flag",
    [(MT, "		for i := range sn.subs {\n			if equal(sn.subs[i], sub) {\n				sn.qos[i] = qos\n				return nil\n			}\n		}\n\n		// Otherwise add.\n		sn.subs = append(sn.subs, sub)\n		sn.qos = append(sn.qos, qos)\n\n		return nil",
      "		found := false\n		for i := range sn.subs {\n			if equal(sn.subs[i], sub) {\n				sn.qos[i] = qos\n				found = true\n				break\n			}\n		}\n\n		if !found {\n			sn.subs = append(sn.subs, sub)\n			sn.qos = append(sn.qos, qos)\n		}\n\n		return nil")])
neg("C06", "neg-subscribe-explicit-unlock", "Subscribe with explicit unlocks",
    [(MT, "	mt.smu.Lock()\n	defer mt.smu.Unlock()\n\n	if qos > MaxQosAllowed {\n		qos = MaxQosAllowed\n	}\n\n	if err := mt.sroot.sinsert(topic, qos, sub); err != nil {\n		return message.QosFailure, err\n	}\n\n	return qos, nil",
      "	if qos > MaxQosAllowed {\n		qos = MaxQosAllowed\n	}\n\n	mt.smu.Lock()\n	err := mt.sroot.sinsert(topic, qos, sub)\n	mt.smu.Unlock()\n	if err != nil {\n		return message.QosFailure, err\n	}\n\n	return qos, nil")])
neg("C06", "neg-sremove-copy-shift", "sremove shifts with copy",
    [(MT, "				sn.subs = append(sn.subs[:i], sn.subs[i+1:]...)\n				sn.qos = append(sn.qos[:i], sn.qos[i+1:]...)\n				return nil",
      "				copy(sn.subs[i:], sn.subs[i+1:])\n				sn.subs = sn.subs[:len(sn.subs)-1]\n				copy(sn.qos[i:], sn.qos[i+1:])\n				sn.qos = sn.qos[:len(sn.qos)-1]\n				return nil")])

# ---------------------------------------------------------------- C07
pos("C07", "subscribe-returns-on-rejected-filter", "the fix of e3bf60d undone: no SUBACK when the tree rejects a filter",
    [(PROC, "			retcodes = append(retcodes, message.QosFailure)\n			continue\n", "			return err\n")],
    ["C07/P6-on-all-exits/SUBSCRIBE"])
pos("C07", "suback-with-fixed-code", "the SUBACK reports the requested QoS instead of the tree's answer",
    [(PROC, "		retcodes = append(retcodes, rqos)\n", "		retcodes = append(retcodes, qos[i])\n		_ = rqos\n")],
    ["C07/P4-loop-contract/SUBSCRIBE-loop:code-is-tree-answer"])
pos("C07", "unsuback-before-tree-update", "the UNSUBACK is written before the subscriptions are removed",
    [(PROC, """	topics := msg.Topics()

	for _, t := range topics {
		p.topicsMgr.Unsubscribe(t, &p.onpub)
		p.sess.RemoveTopic(string(t))
	}

	resp := message.NewUnsubackMessage()
	resp.SetPacketID(msg.PacketID())

	_, err := p.writeMessage(resp)
	return err
""", """	topics := msg.Topics()

	resp := message.NewUnsubackMessage()
	resp.SetPacketID(msg.PacketID())

	_, err := p.writeMessage(resp)

	for _, t := range topics {
		p.topicsMgr.Unsubscribe(t, &p.onpub)
		p.sess.RemoveTopic(string(t))
	}

	return err
""")],
    ["C07/P5-order/UNSUBSCRIBE:no-tree-update-after-UNSUBACK"])
pos("C07", "suback-id-not-copied", "SUBACK without the request's packet id",
    [(PROC, "	resp := message.NewSubackMessage()\n	resp.SetPacketID(msg.PacketID())\n", "	resp := message.NewSubackMessage()\n")],
    ["C07/P3-ack-id/SUBSCRIBE:id(SUBACK)"])
pos("C07", "retained-before-suback", "retained messages are sent before the SUBACK",
    [(PROC, """	if _, err := p.writeMessage(resp); err != nil {
		return err
	}

	for _, rm := range p.rmsgs {
		if err := p.publish(rm, nil); err != nil {
			log.Warningf("(%s) Error publishing retained message: %v", p.cid(), err)
			return err
		}
	}

	return nil
""", """	for _, rm := range p.rmsgs {
		if err := p.publish(rm, nil); err != nil {
			log.Warningf("(%s) Error publishing retained message: %v", p.cid(), err)
			return err
		}
	}

	if _, err := p.writeMessage(resp); err != nil {
		return err
	}

	return nil
""")],
    ["C07/P5-order/SUBSCRIBE:retained-after-SUBACK"])
neg("C07", "neg-unsubscribe-inline-topics", "UNSUBSCRIBE loop ranges over msg.Topics() directly, response built first",
    [(PROC, """	topics := msg.Topics()

	for _, t := range topics {
		p.topicsMgr.Unsubscribe(t, &p.onpub)
		p.sess.RemoveTopic(string(t))
	}

	resp := message.NewUnsubackMessage()
	resp.SetPacketID(msg.PacketID())

	_, err := p.writeMessage(resp)
	return err
""", """	resp := message.NewUnsubackMessage()
	resp.SetPacketID(msg.PacketID())

	for _, t := range msg.Topics() {
		filter := string(t)
		p.topicsMgr.Unsubscribe(t, &p.onpub)
		p.sess.RemoveTopic(filter)
	}

	if _, err := p.writeMessage(resp); err != nil {
		return err
	}
	return nil
""")])
neg("C07", "neg-subscribe-suback-helper", "SUBACK assembled and written by a helper",
    [(PROC, """	if err := resp.AddReturnCodes(retcodes); err != nil {
		return err
	}

	if _, err := p.writeMessage(resp); err != nil {
		return err
	}
""", """	if err := p.sendSuback(resp, retcodes); err != nil {
		return err
	}
"""),
     (PROC, "// For UNSUBSCRIBE message, we should remove the subscriber, and send back UNSUBACK", """func (p *service) sendSuback(resp *message.SubackMessage, retcodes []byte) error {
	if err := resp.AddReturnCodes(retcodes); err != nil {
		return err
	}

	_, err := p.writeMessage(resp)
	return err
}

// For UNSUBSCRIBE message, we should remove the subscriber, and send back UNSUBACK""")])
neg("C07", "neg-subscribe-code-local", "return code through a local and a switch on the error",
    [(PROC, """		rqos, err := p.topicsMgr.Subscribe(t, qos[i], &p.onpub)
		if err != nil {
			// The filter is rejected: report the failure for this filter in the
			// SUBACK (MQTT-3.9.3) and go on with the remaining filters.
			log.Warningf("(%s) Subscribing topic %q failed: %v", p.cid(), string(t), err)
			retcodes = append(retcodes, message.QosFailure)
			continue
		}
""", """		want := qos[i]
		rqos, err := p.topicsMgr.Subscribe(t, want, &p.onpub)
		if err != nil {
			log.Warningf("(%s) Subscribing topic %q failed: %v", p.cid(), string(t), err)
			var code byte = message.QosFailure
			retcodes = append(retcodes, code)
			continue
		}
""")])

# ---------------------------------------------------------------- C08
DOWNGRADE = """			nrmsgs := p.rmsgs[rlen:]
			for j := range nrmsgs {
				if nrmsgs[j].QoS() > rqos {
					// do not alter retained message
					m, err := nrmsgs[j].Clone()
					if err != nil {
						log.Warningf("Clone of message failed: %v", err)
					} else {
						// downgrade qos
						m.SetQoS(rqos)
						// affects p.rmsgs
						nrmsgs[j] = m
					}
				}
			}
"""
FORWARD = """			// reset retain flag (MQTT-3.3.1-9)
			sr := msg.Retain()
			if sr {
				msg.SetRetain(false)
			}
"""
pos("C08", "retain-when-flag-clear", "messages without the RETAIN flag are stored, flagged ones are not",
    [(PROC, "	if msg.Retain() {\n		// Retain makes a copy of msg.\n		if err := p.topicsMgr.Retain(msg); err != nil {", "	if !msg.Retain() {\n		// Retain makes a copy of msg.\n		if err := p.topicsMgr.Retain(msg); err != nil {")],
    ["C08/P8-guard-contract/onPublish:retain-iff-flag"])
pos("C08", "rinsert-keeps-callers-message", "the store keeps the publisher's message object, which the fan-out rewrites",
    [(MT, "		rn.buf = buf\n		rn.msg = rmsg\n", "		rn.buf = buf\n		rn.msg = msg\n		_ = rmsg\n")],
    ["C08/G6-fresh-copy-on-retention/(*topics.rnode).rinsert:store(rnode.msg)"])
pos("C08", "downgrade-in-place", "the stored retained message is downgraded for everybody",
    [(PROC, DOWNGRADE, """			nrmsgs := p.rmsgs[rlen:]
			for j := range nrmsgs {
				if nrmsgs[j].QoS() > rqos {
					nrmsgs[j].SetQoS(rqos)
				}
			}
""")],
    ["C08/G7-clone-before-mutate/processSubscribe:SetQoS-on-clone"])
pos("C08", "empty-payload-is-stored", "an empty retained publish no longer clears the topic",
    [(MT, "	if len(msg.Payload()) == 0 {\n		return mt.rroot.rremove(msg.Topic())\n	}\n\n", "")],
    ["C08/P8-guard-contract/MemTopics.Retain:empty-payload-clears"])
pos("C08", "forward-keeps-retain-flag", "live forwards carry RETAIN=1",
    [(SVC, FORWARD, "			sr := false\n")],
    ["C08/P5-order/forward:retain-flag-cleared-before-write"])
pos("C08", "downgrade-comparison-reversed", "retained messages are upgraded to the granted QoS",
    [(PROC, "				if nrmsgs[j].QoS() > rqos {", "				if nrmsgs[j].QoS() < rqos {")],
    ["C08/T7-min-idiom/processSubscribe:retained-downgrade=min(stored,granted)"])
neg("C08", "neg-retain-flag-local", "the RETAIN flag in a local",
    [(PROC, "	if msg.Retain() {\n		// Retain makes a copy of msg.\n		if err := p.topicsMgr.Retain(msg); err != nil {", "	retain := msg.Retain()\n	if retain {\n		// Retain makes a copy of msg.\n		if err := p.topicsMgr.Retain(msg); err != nil {")])
neg("C08", "neg-rinsert-order", "message stored before its buffer",
    [(MT, "		rn.buf = buf\n		rn.msg = rmsg\n", "		rn.msg = rmsg\n		rn.buf = buf\n")])
neg("C08", "neg-downgrade-continue", "downgrade loop with an early continue",
    [(PROC, DOWNGRADE, """			nrmsgs := p.rmsgs[rlen:]
			for j := range nrmsgs {
				if nrmsgs[j].QoS() <= rqos {
					continue
				}
				// do not alter retained message
				m, err := nrmsgs[j].Clone()
				if err != nil {
					log.Warningf("Clone of message failed: %v", err)
					continue
				}
				m.SetQoS(rqos)
				nrmsgs[j] = m
			}
""")])
neg("C08", "neg-forward-restore-deferred", "the forwarding closure restores the flag in a defer",
    [(SVC, """			// reset retain flag (MQTT-3.3.1-9)
			sr := msg.Retain()
			if sr {
				msg.SetRetain(false)
			}

			if err := svc.publish(msg, nil); err != nil {
				log.Errorf("(%s) Error publishing message: %v", svc.cid(), err)
				return err
			}

			// restore retain flag
			if sr {
				msg.SetRetain(true)
			}
			return nil
""", """			// reset retain flag (MQTT-3.3.1-9)
			if msg.Retain() {
				msg.SetRetain(false)
				defer msg.SetRetain(true)
			}

			if err := svc.publish(msg, nil); err != nil {
				log.Errorf("(%s) Error publishing message: %v", svc.cid(), err)
				return err
			}
			return nil
""")])

# ---------------------------------------------------------------- C09
WILL_BLOCK = """	if !svc.client && svc.sess.Cmsg.WillFlag() {
		log.Warningf("(%s) Connection unexpectedly closed, sending will message", svc.cid())
		svc.onPublish(svc.sess.Will)
	}
"""
pos("C09", "disconnect-keeps-will", "a clean DISCONNECT still publishes the will",
    [(PROC, "		p.sess.Cmsg.SetWillFlag(false)\n		return errDisconnect", "		return errDisconnect")],
    ["C09/P2-case-contract/DISCONNECT:clears-will-flag"])
pos("C09", "will-regardless-of-flag", "teardown publishes a will although none was requested",
    [(SVC, WILL_BLOCK, WILL_BLOCK.replace("if !svc.client && svc.sess.Cmsg.WillFlag() {", "if !svc.client && svc.sess.Will != nil {"))],
    ["C09/P8-guard-contract/teardown:will-iff-flag"])
pos("C09", "update-keeps-previous-will", "a resumed session without will keeps the will of the previous connection",
    [(SESS, "	s.Will = nil\n	if s.Cmsg.WillFlag() {", "	if s.Cmsg.WillFlag() {")],
    ["C09/T5-co-update/Update:clears-will-without-flag"])
pos("C09", "will-qos-dropped", "the will is always published at QoS 0",
    [(SESS, "	s.Will = nil\n	if s.Cmsg.WillFlag() {\n		s.Will = message.NewPublishMessage()\n		s.Will.SetQoS(s.Cmsg.WillQos())", "	s.Will = nil\n	if s.Cmsg.WillFlag() {\n		s.Will = message.NewPublishMessage()\n		s.Will.SetQoS(message.QosAtMostOnce)")],
    ["C09/T6-will-mapping/Update:will.SetQoS(Cmsg.WillQos())"])
pos("C09", "pingreq-clears-will", "a PINGREQ disarms the will",
    [(PROC, "		resp := message.NewPingrespMessage()\n		_, err = p.writeMessage(resp)", "		p.sess.Cmsg.SetWillFlag(false)\n		resp := message.NewPingrespMessage()\n		_, err = p.writeMessage(resp)")],
    ["C09/P9-who-may/case:PingreqMessage:does-not-touch-will-flag"])
pos("C09", "processor-keeps-running-after-disconnect", "DISCONNECT is treated like any other error",
    [(PROC, "			if err != errDisconnect {\n				log.Warningf(\"(%s) Error processing %s: %v\", p.cid(), msg.Name(), err)\n			} else {\n				return\n			}", "			log.Warningf(\"(%s) Error processing %s: %v\", p.cid(), msg.Name(), err)")],
    ["C09/P2-case-contract/processor:exits-on-disconnect-sentinel"])
neg("C09", "neg-disconnect-local-session", "DISCONNECT case through locals",
    [(PROC, "		p.sess.Cmsg.SetWillFlag(false)\n		return errDisconnect", "		cm := p.sess.Cmsg\n		cm.SetWillFlag(false)\n		return errDisconnect")])
neg("C09", "neg-teardown-will-helper", "will publication extracted into a method",
    [(SVC, WILL_BLOCK, "	svc.publishWill()\n"),
     (SVC, "func (svc *service) isDone() bool {", "func (svc *service) publishWill() {\n" + WILL_BLOCK + "}\n\nfunc (svc *service) isDone() bool {")])
neg("C09", "neg-session-will-helper", "Init and Update share a helper that rebuilds the will",
    [(SESS, """	if s.Cmsg.WillFlag() {
		s.Will = message.NewPublishMessage()
		s.Will.SetQoS(s.Cmsg.WillQos())
		s.Will.SetTopic(s.Cmsg.WillTopic())
		s.Will.SetPayload(s.Cmsg.WillMessage())
		s.Will.SetRetain(s.Cmsg.WillRetain())
	}

	s.topics = make(map[string]byte, 1)
""", """	s.rebuildWill()

	s.topics = make(map[string]byte, 1)
"""),
     (SESS, """	s.Will = nil
	if s.Cmsg.WillFlag() {
		s.Will = message.NewPublishMessage()
		s.Will.SetQoS(s.Cmsg.WillQos())
		s.Will.SetTopic(s.Cmsg.WillTopic())
		s.Will.SetPayload(s.Cmsg.WillMessage())
		s.Will.SetRetain(s.Cmsg.WillRetain())
	}

	return nil
}
""", """	s.rebuildWill()

	return nil
}

// rebuildWill derives the will from the current CONNECT message (s.mu held).
func (s *Session) rebuildWill() {
	s.Will = nil
	if !s.Cmsg.WillFlag() {
		return
	}
	w := message.NewPublishMessage()
	w.SetQoS(s.Cmsg.WillQos())
	w.SetTopic(s.Cmsg.WillTopic())
	w.SetPayload(s.Cmsg.WillMessage())
	w.SetRetain(s.Cmsg.WillRetain())
	s.Will = w
}
""")])
neg("C09", "neg-processor-sentinel-first", "processor tests the sentinel first",
    [(PROC, "			if err != errDisconnect {\n				log.Warningf(\"(%s) Error processing %s: %v\", p.cid(), msg.Name(), err)\n			} else {\n				return\n			}", "			if err == errDisconnect {\n				return\n			}\n			log.Warningf(\"(%s) Error processing %s: %v\", p.cid(), msg.Name(), err)")])

# ---------------------------------------------------------------- C10
pos("C10", "clean-flag-inverted", "CleanSession=1 resumes, CleanSession=0 starts afresh",
    [(SRV, "	if !req.CleanSession() {\n		if svc.sess, err = svr.sessMgr.Get(cid); err == nil {", "	if req.CleanSession() {\n		if svc.sess, err = svr.sessMgr.Get(cid); err == nil {")],
    ["C10/P8-guard-contract/getSession:clean(CleanSession=1):never(Session.Update)"])
pos("C10", "session-present-on-new-session", "CONNACK claims a stored session although a new one was created",
    [(SRV, "		resp.SetSessionPresent(false)\n\n		if err := svc.sess.Init(req); err != nil {", "		resp.SetSessionPresent(true)\n\n		if err := svc.sess.Init(req); err != nil {")],
    ["C10/P8-guard-contract/getSession:fresh(CleanSession=0,none-stored):must(SetSessionPresent(false))"])
pos("C10", "teardown-deletes-persistent-session", "every session is deleted at the end of the connection",
    [(SVC, "	if svc.sess.Cmsg.CleanSession() && svc.sessMgr != nil {", "	if svc.sessMgr != nil {")],
    ["C10/P8-guard-contract/teardown:delete-iff-clean"])
pos("C10", "addtopic-keeps-first-qos", "a re-subscription at another QoS is not recorded",
    [(SESS, "	s.topics[topic] = qos\n", "	if _, ok := s.topics[topic]; !ok {\n		s.topics[topic] = qos\n	}\n")],
    ["C10/T5-co-update/Session.AddTopic:records-filter-and-qos"])
pos("C10", "restore-skipped", "a resumed session's subscriptions are not re-registered",
    [(SVC, "		for i, t := range topics {\n			svc.topicsMgr.Subscribe([]byte(t), qoss[i], &svc.onpub)\n		}\n", "		_, _ = topics, qoss\n")],
    ["C10/P4-loop-contract/start:restores-session-subscriptions"])
pos("C10", "store-keyed-by-constant", "all sessions share one store entry",
    [("sessions/memprovider.go", "	mp.st[id] = &Session{id: id}\n	return mp.st[id], nil", "	mp.st[\"\"] = &Session{id: id}\n	return mp.st[\"\"], nil")],
    ["C10/P9-who-may/MemProvider.New:keyed-by-id"])
neg("C10", "neg-getsession-early-return", "getSession with an early return for the resumed case",
    [(SRV, """	if !req.CleanSession() {
		if svc.sess, err = svr.sessMgr.Get(cid); err == nil {
			resp.SetSessionPresent(true)

			if err := svc.sess.Update(req); err != nil {
				return err
			}
		}
	}

	// If CleanSession, or no existing session found, then create a new one
	if svc.sess == nil {
		if svc.sess, err = svr.sessMgr.New(cid); err != nil {
			return err
		}

		resp.SetSessionPresent(false)

		if err := svc.sess.Init(req); err != nil {
			return err
		}
	}

	return nil
""", """	if !req.CleanSession() {
		if svc.sess, err = svr.sessMgr.Get(cid); err == nil {
			resp.SetSessionPresent(true)
			return svc.sess.Update(req)
		}
	}

	// If CleanSession, or no existing session found, then create a new one
	if svc.sess == nil {
		svc.sess, err = svr.sessMgr.New(cid)
		if err != nil {
			return err
		}

		resp.SetSessionPresent(false)
		return svc.sess.Init(req)
	}

	return nil
""")])
neg("C10", "neg-memprovider-new-local", "New builds the session in a local",
    [("sessions/memprovider.go", "	mp.st[id] = &Session{id: id}\n	return mp.st[id], nil", "	sess := &Session{id: id}\n	mp.st[id] = sess\n	return sess, nil")])
neg("C10", "neg-teardown-delete-nested", "teardown's delete condition nested",
    [(SVC, "	if svc.sess.Cmsg.CleanSession() && svc.sessMgr != nil {\n		svc.sessMgr.Del(svc.sess.ID())\n	}", "	if svc.sessMgr != nil {\n		if svc.sess.Cmsg.CleanSession() {\n			svc.sessMgr.Del(svc.sess.ID())\n		}\n	}")])
neg("C10", "neg-restore-locals", "restore loop with locals",
    [(SVC, "		for i, t := range topics {\n			svc.topicsMgr.Subscribe([]byte(t), qoss[i], &svc.onpub)\n		}\n", "		for i := range topics {\n			filter, q := []byte(topics[i]), qoss[i]\n			svc.topicsMgr.Subscribe(filter, q, &svc.onpub)\n		}\n")])

# ---------------------------------------------------------------- C11
CONN = "message/connect.go"
AUTH = """	if err = svr.authMgr.Authenticate(user, string(req.Password())); err != nil {
		log.Warningf("(%s) Authentication of user %s failed: %v", req.ClientID(), user, err)
		resp.SetReturnCode(message.ErrBadUsernameOrPassword)
		resp.SetSessionPresent(false)
		writeMessage(conn, resp)
		return nil, err
	}
"""
pos("C11", "auth-failure-falls-through", "a refused login continues into session creation",
    [(SRV, AUTH, AUTH.replace("		writeMessage(conn, resp)\n		return nil, err\n", "		writeMessage(conn, resp)\n"))],
    ["C11/P11-effect-dominance/accept:no-effect-after-failed-authentication"])
pos("C11", "auth-failure-wrong-code", "a refused login is answered with 'not authorized' (5) instead of 4",
    [(SRV, AUTH, AUTH.replace("message.ErrBadUsernameOrPassword", "message.ErrNotAuthorized"))],
    ["C11/P2-case-contract/accept:authentication-failure:sets-code(4)"])
pos("C11", "session-before-authentication", "a session is created before the credentials are checked",
    [(SRV, "	// Authenticate the user, if error, return error and exit\n	user := string(req.Username())", "	svr.sessMgr.New(string(req.ClientID()))\n\n	// Authenticate the user, if error, return error and exit\n	user := string(req.Username())")],
    ["C11/P11-effect-dominance/accept:authentication-before-any-effect"])
pos("C11", "connect-accepts-reserved-flag", "CONNECT with the reserved flag bit set is accepted",
    [(CONN, "	if m.connectFlags&0x1 != 0 {\n		return total, fmt.Errorf(\"connect/decodeMessage: Connect Flags reserved bit 0 is not 0\")\n	}\n\n", "")],
    ["C11/P8-guard-contract/CONNECT-decode:rejects(reserved-flag-set)"])
pos("C11", "connect-accepts-empty-id-without-clean", "an empty client id without clean session is accepted",
    [(CONN, "	if len(m.clientID) == 0 && !m.CleanSession() {", "	if len(m.clientID) == 0 && m.CleanSession() {")],
    ["C11/P8-guard-contract/CONNECT-decode:rejects(empty-client-id-without-clean-session)"])
pos("C11", "accepted-without-connack", "a successful handshake starts the service without writing the CONNACK",
    [(SRV, "	if err = writeMessage(c, resp); err != nil {\n		return nil, err\n	}\n\n	svc.inStat.increment", "	svc.inStat.increment")],
    ["C11/P2-case-contract/accept:accepted:writes-CONNACK"])
neg("C11", "neg-auth-early-block", "authentication block with the refusal in a helper",
    [(SRV, AUTH, """	if err = svr.authMgr.Authenticate(user, string(req.Password())); err != nil {
		log.Warningf("(%s) Authentication of user %s failed: %v", req.ClientID(), user, err)
		svr.refuse(conn, resp, message.ErrBadUsernameOrPassword)
		return nil, err
	}
"""),
     (SRV, "func (svr *Server) checkConfiguration() error {", """func (svr *Server) refuse(conn io.Closer, resp *message.ConnackMessage, code message.ConnackCode) {
	resp.SetReturnCode(code)
	resp.SetSessionPresent(false)
	writeMessage(conn, resp)
}

func (svr *Server) checkConfiguration() error {""")])
neg("C11", "neg-connack-write-local-error", "CONNACK write with a separate error variable",
    [(SRV, "	if err = writeMessage(c, resp); err != nil {\n		return nil, err\n	}\n\n	svc.inStat.increment", "	werr := writeMessage(c, resp)\n	if werr != nil {\n		err = werr\n		return nil, err\n	}\n\n	svc.inStat.increment")])
neg("C11", "neg-connect-reserved-mask", "reserved flag test written with == 1",
    [(CONN, "	if m.connectFlags&0x1 != 0 {", "	if m.connectFlags&0x1 == 1 {")])

# ---------------------------------------------------------------- C12
pos("C12", "puback-not-released", "PUBACK is recorded but the waiting publish is never completed",
    [(PROC, "		p.sess.Pub1ack.Ack(msg)\n		p.processAcked(p.sess.Pub1ack)", "		p.sess.Pub1ack.Ack(msg)")],
    ["C12/P2-case-contract/PUBACK:must(release(Pub1ack))"])
pos("C12", "pubcomp-on-wrong-queue", "PUBCOMP is acknowledged on the inbound queue",
    [(PROC, "		if err = p.sess.Pub2out.Ack(msg); err != nil {\n			break\n		}\n\n		p.processAcked(p.sess.Pub2out)", "		if err = p.sess.Pub2in.Ack(msg); err != nil {\n			break\n		}\n\n		p.processAcked(p.sess.Pub2out)")],
    ["C12/P2-case-contract/PUBCOMP:must(Pub2out.Ack)"])
pos("C12", "completion-called-twice", "the completion callback fires twice",
    [(PROC, "				if err := onComplete(msg, ack, nil); err != nil {\n					log.Warningf(\"OnCompleteFunc failed: %v\", err)\n				}", "				if err := onComplete(msg, ack, nil); err != nil {\n					log.Warningf(\"OnCompleteFunc failed: %v\", err)\n					onComplete(msg, ack, err)\n				}")],
    ["C12/P2-case-contract/release-loop:"])
pos("C12", "qos0-registered", "a QoS 0 publish is put into the PUBACK queue and never completes",
    [(SVC, "	case message.QosAtMostOnce:\n		if onComplete != nil {\n			return onComplete(msg, nil, nil)\n		}\n\n		return nil\n\n	case message.QosAtLeastOnce:", "	case message.QosAtMostOnce, message.QosAtLeastOnce:")],
    ["C12/P2-case-contract/(*service.service).publish:QoS0-completes-at-once"])
pos("C12", "ack-marks-head-instead-of-id", "an acknowledgement updates the head slot whatever id it carries",
    [(AQ, "			aq.ring[i].State = msg.Type()\n", "			aq.ring[aq.head].State = msg.Type()\n")],
    ["C12/P3-ack-id/Ack:store(ring[i].State):i-from-index(id)"])
neg("C12", "neg-puback-err-checked", "PUBACK case checks the Ack error like the QoS 2 cases",
    [(PROC, "		p.sess.Pub1ack.Ack(msg)\n		p.processAcked(p.sess.Pub1ack)", "		if err = p.sess.Pub1ack.Ack(msg); err != nil {\n			break\n		}\n		p.processAcked(p.sess.Pub1ack)")])
neg("C12", "neg-release-callback-flat", "completion callback with early continues",
    [(PROC, """		if ackmsg.OnComplete != nil {
			onComplete, ok := ackmsg.OnComplete.(OnCompleteFunc)
			if !ok {
				log.Errorf("Invalid OnCompleteFunc: %v", reflect.TypeOf(ackmsg.OnComplete))
			} else if onComplete != nil {
				if err := onComplete(msg, ack, nil); err != nil {
					log.Warningf("OnCompleteFunc failed: %v", err)
				}
			}
		}
""", """		if ackmsg.OnComplete == nil {
			continue
		}
		onComplete, ok := ackmsg.OnComplete.(OnCompleteFunc)
		if !ok {
			log.Errorf("Invalid OnCompleteFunc: %v", reflect.TypeOf(ackmsg.OnComplete))
			continue
		}
		if onComplete == nil {
			continue
		}
		if err := onComplete(msg, ack, nil); err != nil {
			log.Warningf("OnCompleteFunc failed: %v", err)
		}
""")])
neg("C12", "neg-ack-slot-pointer", "Ack works on a pointer to the slot",
    [(AQ, """			aq.ring[i].State = msg.Type()

			ml := msg.Len()
			aq.ring[i].Ackbuf = make([]byte, ml)

			_, err := msg.Encode(aq.ring[i].Ackbuf)
			if err != nil {
				return err
			}
""", """			slot := &aq.ring[i]
			slot.State = msg.Type()
			slot.Ackbuf = make([]byte, msg.Len())

			if _, err := msg.Encode(slot.Ackbuf); err != nil {
				return err
			}
""")])

# ---------------------------------------------------------------- C13
pos("C13", "acked-skips-unfinished-head", "Acked releases finished entries behind an unfinished head (out of order)",
    [(AQ, "		default:\n			break FORNOTEMPTY\n		}", "		default:\n			aq.removeHead()\n			continue FORNOTEMPTY\n		}")],
    ["C13/P4-loop-contract/Acked:stops-at-first-unfinished-head"])
pos("C13", "empty-by-head-equals-tail", "a full queue is taken for an empty one",
    [(AQ, "func (aq *Ackqueue) empty() bool {\n	return aq.count == 0", "func (aq *Ackqueue) empty() bool {\n	return aq.head == aq.tail")],
    ["C13/T5-co-update/Acked:emptiness-decided-on-count"])
pos("C13", "removehead-keeps-index-entry", "released ids stay in the index map and block re-use of the id",
    [(AQ, "	aq.count--\n	delete(aq.emap, it.Pktid)\n", "	aq.count--\n	_ = it\n")],
    ["C13/T5-co-update/(*sessions.Ackqueue).removeHead:"])
pos("C13", "grow-newest-first", "grow unrolls a wrapped ring with the newest entries first",
    [(AQ, "		copy(newring, aq.ring[aq.head:])\n		copy(newring[aq.size-aq.head:], aq.ring[:aq.tail])", "		copy(newring, aq.ring[:aq.tail])\n		copy(newring[aq.tail:], aq.ring[aq.head:])")],
    ["C13/T5-co-update/grow:unrolls-oldest-first"])
pos("C13", "wait-without-lock", "Wait mutates the queue outside its mutex",
    [(AQ, "func (aq *Ackqueue) Wait(msg message.Message, onComplete interface{}) error {\n	aq.mu.Lock()\n	defer aq.mu.Unlock()\n", "func (aq *Ackqueue) Wait(msg message.Message, onComplete interface{}) error {\n")],
    ["C13/G1-guarded-by/Ackqueue.Wait:holds-mu"])
neg("C13", "neg-acked-head-local", "Acked works on a copy of the head entry",
    [(AQ, """		switch aq.ring[aq.head].State {
		case message.PUBACK, message.PUBREL, message.PUBCOMP, message.SUBACK, message.UNSUBACK:
			aq.ackdone = append(aq.ackdone, aq.ring[aq.head])
			aq.removeHead()
""", """		head := aq.ring[aq.head]
		switch head.State {
		case message.PUBACK, message.PUBREL, message.PUBCOMP, message.SUBACK, message.UNSUBACK:
			aq.ackdone = append(aq.ackdone, head)
			aq.removeHead()
""")])
neg("C13", "neg-empty-len", "emptiness through len()",
    [(AQ, "func (aq *Ackqueue) empty() bool {\n	return aq.count == 0", "func (aq *Ackqueue) empty() bool {\n	return aq.len() == 0")])
neg("C13", "neg-grow-explicit-loop", "grow unrolls with an element loop from the head",
    [(AQ, """	if aq.tail > aq.head {
		copy(newring, aq.ring[aq.head:aq.tail])
	} else {
		copy(newring, aq.ring[aq.head:])
		copy(newring[aq.size-aq.head:], aq.ring[:aq.tail])
	}
""", """	for i := int64(0); i < aq.count; i++ {
		newring[i] = aq.ring[(aq.head+i)&aq.mask]
	}
""")])

# ---------------------------------------------------------------- C14
pos("C14", "writer-commits-reserved-length", "the writer commits the reserved length instead of what Encode produced",
    [(SR, "		m, err = svc.out.WriteCommit(n)", "		m, err = svc.out.WriteCommit(l)")],
    ["C14/L7-critical-span/writeMessage:commits-what-was-encoded-in-place"])
pos("C14", "writer-encodes-before-lock", "two writers interleave their bytes in the outgoing ring",
    [(SR, "	svc.wmu.Lock()\n	defer svc.wmu.Unlock()\n\n	buf, wrap, err = svc.out.WriteWait(l)", "	buf, wrap, err = svc.out.WriteWait(l)\n	svc.wmu.Lock()\n	defer svc.wmu.Unlock()\n")],
    ["C14/L7-critical-span/writeMessage:buffer.WriteWait-under-wmu"])
pos("C14", "processor-commits-before-use", "the ring space of a packet is released while the handler still reads it",
    [(PROC, """		err = p.processIncoming(msg)
		if err != nil {
			if err != errDisconnect {
				log.Warningf("(%s) Error processing %s: %v", p.cid(), msg.Name(), err)
			} else {
				return
			}
		}

		// 7. We should commit the bytes in the buffer so we can move on
		_, err = p.in.ReadCommit(total)
		if err != nil {
			if !isEOF(err) {
				log.Errorf("(%s) Error committing %d read bytes: %v", p.cid(), total, err)
			}
			return
		}
""", """		_, err = p.in.ReadCommit(total)
		if err != nil {
			if !isEOF(err) {
				log.Errorf("(%s) Error committing %d read bytes: %v", p.cid(), total, err)
			}
			return
		}

		err = p.processIncoming(msg)
		if err != nil {
			if err != errDisconnect {
				log.Warningf("(%s) Error processing %s: %v", p.cid(), msg.Name(), err)
			} else {
				return
			}
		}
""")],
    ["C14/P5-order/processor:commit-after-use-of-peeked-bytes"])
pos("C14", "processor-writes-into-in-ring", "a second producer on the incoming ring",
    [(PROC, "		p.inStat.increment(int64(n))\n", "		p.inStat.increment(int64(n))\n		p.in.WriteCommit(0)\n")],
    ["C14/P9-who-may/"])
neg("C14", "neg-writer-explicit-unlock", "writer with explicit unlocks instead of defer",
    [(SR, """	svc.wmu.Lock()
	defer svc.wmu.Unlock()

	buf, wrap, err = svc.out.WriteWait(l)
	if err != nil {
		return 0, err
	}
""", """	svc.wmu.Lock()
	defer func() {
		svc.wmu.Unlock()
	}()

	buf, wrap, err = svc.out.WriteWait(l)
	if err != nil {
		return 0, err
	}
""")])
neg("C14", "neg-writer-wrap-helper", "wrap path extracted into a method",
    [(SR, """		if len(svc.outtmp) < l {
			svc.outtmp = make([]byte, l)
		}

		n, err = msg.Encode(svc.outtmp[0:])
		if err != nil {
			return 0, err
		}

		m, err = svc.out.Write(svc.outtmp[0:n])
		if err != nil {
			return m, err
		}
""", """		m, err = svc.writeWrapped(msg, l)
		if err != nil {
			return m, err
		}
"""),
     (SR, "func isEOF(err error) bool {", """// writeWrapped encodes into the scratch buffer and copies into the ring (svc.wmu held).
func (svc *service) writeWrapped(msg message.Message, l int) (int, error) {
	if len(svc.outtmp) < l {
		svc.outtmp = make([]byte, l)
	}

	n, err := msg.Encode(svc.outtmp[0:])
	if err != nil {
		return 0, err
	}

	return svc.out.Write(svc.outtmp[0:n])
}

func isEOF(err error) bool {""")])
neg("C14", "neg-processor-commit-local", "processor commits through a local ring variable",
    [(PROC, "		_, err = p.in.ReadCommit(total)\n		if err != nil {\n			if !isEOF(err) {", "		in := p.in\n		_, err = in.ReadCommit(total)\n		if err != nil {\n			if !isEOF(err) {")])

# ---------------------------------------------------------------- C16
pos("C16", "teardown-joins-before-closing-rings", "teardown waits for goroutines that are only released by closing the rings",
    [(SVC, "	svc.in.Close()\n	svc.out.Close()\n\n	// Wait for all the goroutines to stop.\n	svc.wgStopped.Wait()\n", "	// Wait for all the goroutines to stop.\n	svc.wgStopped.Wait()\n\n	svc.in.Close()\n	svc.out.Close()\n")],
    ["C16/P5-order/teardown:in-ring-close-before-join"])
pos("C16", "processor-done-after-teardown", "the processor calls teardown before signalling that it stopped: teardown joins itself",
    [(PROC, "		p.wgStopped.Done()\n		p.stop()\n", "		p.stop()\n		p.wgStopped.Done()\n")],
    ["C16/P5-order/start:go#1(processor):done-before-teardown"])
pos("C16", "sender-started-without-add", "the join does not wait for the sender",
    [(SVC, "	svc.wgStarted.Add(1)\n	svc.wgStopped.Add(1)\n	go svc.sender()", "	svc.wgStarted.Add(1)\n	go svc.sender()")],
    ["C16/P7-goroutine-entry/start:go#3(sender):add-before-go"])
pos("C16", "teardown-runs-twice", "the once-guard is gone: processor exit and Server.Close both tear down",
    [(SVC, "	if !doit {\n		return\n	}\n", "	_ = doit\n")],
    ["C16/P5-order/teardown:once-guard-loser-returns"])
pos("C16", "writer-sleeps-under-wmu", "a blocking call is made while the write mutex is held",
    [(SR, "	buf, wrap, err = svc.out.WriteWait(l)\n	if err != nil {\n		return 0, err\n	}\n", "	buf, wrap, err = svc.out.WriteWait(l)\n	if err != nil {\n		return 0, err\n	}\n	<-svc.done\n")],
    ["C16/L6-no-blocking-under-lock/"])
pos("C16", "server-close-skips-services", "Server.Close leaves the connections running",
    [(SRV, "	for _, svc := range svcs {\n		log.Tracef(\"Stopping service: %d\", svc.id)\n		svc.stop()\n	}\n", "	for _, svc := range svcs {\n		log.Tracef(\"Stopping service: %d\", svc.id)\n	}\n")],
    ["C16/P4-loop-contract/Server.Close:stops-every-service"])
neg("C16", "neg-teardown-close-helper", "the closes extracted into a helper called before the join",
    [(SVC, """	// Close the network connection
	if svc.conn != nil {
		log.Tracef("(%s) Closing connection", svc.cid())
		svc.conn.Close()
	}

	svc.in.Close()
	svc.out.Close()
""", """	svc.closeEverything()
"""),
     (SVC, "func (svc *service) isDone() bool {", """func (svc *service) closeEverything() {
	// Close the network connection
	if svc.conn != nil {
		log.Tracef("(%s) Closing connection", svc.cid())
		svc.conn.Close()
	}

	svc.in.Close()
	svc.out.Close()
}

func (svc *service) isDone() bool {""")])
neg("C16", "neg-once-guard-positive-form", "once-guard written positively",
    [(SVC, "	doit := atomic.CompareAndSwapInt64(&svc.closed, 0, 1)\n	if !doit {\n		return\n	}\n", "	if swapped := atomic.CompareAndSwapInt64(&svc.closed, 0, 1); swapped == false {\n		return\n	}\n")])
neg("C16", "neg-start-add-grouped", "both wait groups incremented for all three goroutines up front",
    [(SVC, """	svc.wgStarted.Add(1)
	svc.wgStopped.Add(1)
	go svc.processor()

	// Receiver is responsible for reading from the connection and putting data into
	// a buffer.
	svc.wgStarted.Add(1)
	svc.wgStopped.Add(1)
	go svc.receiver()

	// Sender is responsible for writing data in the buffer into the connection.
	svc.wgStarted.Add(1)
	svc.wgStopped.Add(1)
	go svc.sender()
""", """	svc.wgStarted.Add(3)
	svc.wgStopped.Add(3)
	go svc.processor()

	// Receiver is responsible for reading from the connection and putting data into
	// a buffer.
	go svc.receiver()

	// Sender is responsible for writing data in the buffer into the connection.
	go svc.sender()
""")])
neg("C16", "neg-server-close-index-loop", "Server.Close stops the services in an index loop",
    [(SRV, "	for _, svc := range svcs {\n		log.Tracef(\"Stopping service: %d\", svc.id)\n		svc.stop()\n	}\n", "	for i := 0; i < len(svcs); i++ {\n		log.Tracef(\"Stopping service: %d\", svcs[i].id)\n		svcs[i].stop()\n	}\n")])

# ---------------------------------------------------------------- C17
pos("C17", "second-processor", "two processors handle the packets of one connection",
    [(SVC, "	svc.wgStarted.Add(1)\n	svc.wgStopped.Add(1)\n	go svc.processor()\n", "	svc.wgStarted.Add(2)\n	svc.wgStopped.Add(2)\n	go svc.processor()\n	go svc.processor()\n")],
    ["C17/P7-goroutine-entry/one-processor-goroutine-per-connection"])
pos("C17", "fanout-in-goroutines", "each delivery runs in its own goroutine: messages of one publisher overtake each other",
    [(PROC, "			if err := (*fn)(msg); err != nil {\n				log.Warningf(\"%v\", err)\n			}\n		}\n	}\n\n	return nil\n}", "			go (*fn)(msg)\n		}\n	}\n\n	return nil\n}")],
    ["C17/P7-goroutine-entry/no-goroutine-spawned-while-handling-a-packet"])
pos("C17", "wrap-path-writes-whole-scratch", "the wrap path copies the whole scratch buffer",
    [(SR, "		m, err = svc.out.Write(svc.outtmp[0:n])", "		m, err = svc.out.Write(svc.outtmp)")],
    ["C17/L7-critical-span/writeMessage:wrap-path-writes-what-was-encoded"])
pos("C17", "writer-unlocks-before-commit", "the write mutex is released between encode and commit",
    [(SR, "		m, err = svc.out.WriteCommit(n)\n		if err != nil {\n			return 0, err\n		}", "		svc.wmu.Unlock()\n		m, err = svc.out.WriteCommit(n)\n		svc.wmu.Lock()\n		if err != nil {\n			return 0, err\n		}")],
    ["C17/L7-critical-span/writeMessage:buffer.WriteCommit-under-wmu"])
neg("C17", "neg-writer-renamed", "packet writer with renamed locals and reordered declarations",
    [(SR, "	var (\n		l    int = msg.Len()\n		m, n int\n		err  error\n		buf  []byte\n		wrap bool\n	)\n\n	if svc.out == nil {", "	var (\n		m, n int\n		err  error\n		buf  []byte\n		wrap bool\n	)\n	l := msg.Len()\n\n	if svc.out == nil {")])

# ---------------------------------------------------------------- C18
pos("C18", "stat-read-plainly", "an atomically updated counter is read without atomic",
    [(SVC, "atomic.LoadInt64(&svc.inStat.bytes), atomic.LoadInt64(&svc.inStat.msgs))", "svc.inStat.bytes, atomic.LoadInt64(&svc.inStat.msgs))")],
    ["C18/G2-atomic-consistency/"])
pos("C18", "server-close-without-lock", "the fix of 63fa5a9 undone",
    [(SRV, "	svr.mu.Lock()\n	svcs := make([]*service, len(svr.svcs))\n	copy(svcs, svr.svcs)\n	svr.mu.Unlock()\n", "	svcs := make([]*service, len(svr.svcs))\n	copy(svcs, svr.svcs)\n")],
    ["C18/G1-guarded-by/service.Server.svcs"])
pos("C18", "session-topics-without-lock", "Session.Topics iterates the map without the session lock",
    [(SESS, "func (s *Session) Topics() ([]string, []byte, error) {\n	s.mu.Lock()\n	defer s.mu.Unlock()\n", "func (s *Session) Topics() ([]string, []byte, error) {\n")],
    ["C18/G1-guarded-by/sessions.Session.topics"])
pos("C18", "topics-registry-without-lock", "the fix of 2a3c59c undone at one site",
    [("topics/topics.go", "func Unregister(name string) {\n	providersMu.Lock()\n	defer providersMu.Unlock()\n", "func Unregister(name string) {\n")],
    ["C18/G8-unguarded-global/topics.providers"])
pos("C18", "teardown-nils-shared-ring", "the fix of 64425c9 undone",
    [(SVC, "	// conn, in and out are deliberately left in place", "	svc.out = nil\n	// conn, in and out are deliberately left in place")],
    ["C18/G"])
neg("C18", "neg-stat-load-locals", "statistics loaded atomically into locals first",
    [(SVC, "	log.Debugf(\"(%s) Received %d bytes in %d messages\", svc.cid(), atomic.LoadInt64(&svc.inStat.bytes), atomic.LoadInt64(&svc.inStat.msgs))", "	inBytes, inMsgs := atomic.LoadInt64(&svc.inStat.bytes), atomic.LoadInt64(&svc.inStat.msgs)\n	log.Debugf(\"(%s) Received %d bytes in %d messages\", svc.cid(), inBytes, inMsgs)")])
neg("C18", "neg-server-close-append-copy", "Server.Close snapshots with append",
    [(SRV, "	svr.mu.Lock()\n	svcs := make([]*service, len(svr.svcs))\n	copy(svcs, svr.svcs)\n	svr.mu.Unlock()\n", "	svr.mu.Lock()\n	svcs := append([]*service(nil), svr.svcs...)\n	svr.mu.Unlock()\n")])
neg("C18", "neg-session-topics-explicit-unlock", "Session.RemoveTopic with explicit unlocks",
    [(SESS, "func (s *Session) RemoveTopic(topic string) error {\n	s.mu.Lock()\n	defer s.mu.Unlock()\n\n	if !s.initted {\n		return fmt.Errorf(\"Session not yet initialized\")\n	}\n\n	delete(s.topics, topic)\n\n	return nil\n}",
      "func (s *Session) RemoveTopic(topic string) error {\n	s.mu.Lock()\n	if !s.initted {\n		s.mu.Unlock()\n		return fmt.Errorf(\"Session not yet initialized\")\n	}\n	delete(s.topics, topic)\n	s.mu.Unlock()\n\n	return nil\n}")])

# ---------------------------------------------------------------- C19
pos("C19", "deadline-twice-keepalive", "the read deadline is 2 x keep-alive",
    [(SR, "			d:    keepAlive + (keepAlive / 5),", "			d:    keepAlive + keepAlive,")],
    ["C19/B8-deadline-factor/receiver:deadline-factor"])
pos("C19", "deadline-not-rearmed", "the deadline is set once when the reader is created, not before every read",
    [(SR, "	if err := r.conn.SetReadDeadline(time.Now().Add(r.d)); err != nil {\n		return 0, err\n	}\n	return r.conn.Read(b)", "	return r.conn.Read(b)")],
    ["C19/P"])
pos("C19", "receiver-reads-raw-connection", "the receiver pumps from the connection without the deadline reader",
    [(SR, "			_, err := svc.in.ReadFrom(r)\n", "			_ = r\n			_, err := svc.in.ReadFrom(conn)\n")],
    ["C19/P9-who-may/receiver:pumps-from-deadline-reader"])
pos("C19", "pingreq-unanswered", "PINGREQ is not answered",
    [(PROC, "		resp := message.NewPingrespMessage()\n		_, err = p.writeMessage(resp)\n", "		resp := message.NewPingrespMessage()\n		_ = resp\n")],
    ["C19/P2-case-contract/PINGREQ:must(writePINGRESP)"])
pos("C19", "zero-keepalive-kept", "keep-alive 0 gives a zero read deadline: the connection is dropped at once",
    [(SRV, "	if req.KeepAlive() == 0 {\n		req.SetKeepAlive(minKeepAlive)\n	}\n", "")],
    ["C19/P8-guard-contract/accept:zero-keepalive-replaced"])
neg("C19", "neg-deadline-factor-form", "deadline factor written as keepAlive * 6 / 5",
    [(SR, "			d:    keepAlive + (keepAlive / 5),", "			d:    keepAlive * 6 / 5,")])
neg("C19", "neg-deadline-reader-pointer", "the deadline reader used through a pointer with the deadline in a local",
    [(SR, "	if err := r.conn.SetReadDeadline(time.Now().Add(r.d)); err != nil {\n		return 0, err\n	}\n	return r.conn.Read(b)", "	deadline := time.Now().Add(r.d)\n	err := r.conn.SetReadDeadline(deadline)\n	if err != nil {\n		return 0, err\n	}\n	n, err := r.conn.Read(b)\n	return n, err")])
neg("C19", "neg-zero-keepalive-local", "zero keep-alive replaced through a local",
    [(SRV, "	if req.KeepAlive() == 0 {\n		req.SetKeepAlive(minKeepAlive)\n	}\n", "	ka := req.KeepAlive()\n	if ka == 0 {\n		req.SetKeepAlive(minKeepAlive)\n	}\n")])

# ---------------------------------------------------------------- C20
REFUSAL = "	if resp.ReturnCode() != message.ConnectionAccepted {\n		return resp.ReturnCode()\n	}\n"
pos("C20", "client-starts-after-refusal", "a refused CONNECT still starts the client service",
    [(CLI, REFUSAL, "	if resp.ReturnCode() != message.ConnectionAccepted {\n		log.Warningf(\"refused: %v\", resp.ReturnCode())\n	}\n", 1, 2)],
    ["C20/P8-guard-contract/Connect"])
pos("C20", "client-subscribe-ignores-failure-code", "a filter the server refused (0x80) is registered locally",
    [(SVC, "			if c == message.QosFailure {\n				err2 = fmt.Errorf(\"Failed to subscribe to '%s'\\n%v\", string(t), err2)\n			} else {", "			if c == message.QosFailure {\n				err2 = fmt.Errorf(\"Failed to subscribe to '%s'\\n%v\", string(t), err2)\n			}\n			{")],
    ["C20/P4-loop-contract/client-subscribe:registers-each-granted-filter"])
pos("C20", "framing-single-read", "the packet body is read with one Read call",
    [(MISC, "	for l < len(buf) {\n		n, err := conn.Read(buf[l:])\n		if err != nil {\n			return nil, err\n		}\n		l += n\n	}\n", "	if l < len(buf) {\n		n, err := conn.Read(buf[l:])\n		if err != nil {\n			return nil, err\n		}\n		l += n\n	}\n")],
    ["C20/P4-loop-contract/getMessageBuffer:read#2-repeated-until-complete"])
pos("C20", "client-qos1-handover-before-puback", "hand-over before the PUBACK",
    [(PROC, "		if _, err := p.writeMessage(resp); err != nil {\n			return err\n		}\n\n		return p.onPublish(msg)\n", "		if err := p.onPublish(msg); err != nil {\n			return err\n		}\n\n		_, err := p.writeMessage(resp)\n		return err\n")],
    ["C20/P2-case-contract/PUBLISH/QoS1:order(writePUBACK<hand-over)"])
neg("C20", "neg-client-refusal-local", "refusal code through a local",
    [(CLI, REFUSAL, "	if code := resp.ReturnCode(); code != message.ConnectionAccepted {\n		return code\n	}\n", 1, 2)])
neg("C20", "neg-framing-readfull", "the packet body is read with io.ReadFull",
    [(MISC, "	for l < len(buf) {\n		n, err := conn.Read(buf[l:])\n		if err != nil {\n			return nil, err\n		}\n		l += n\n	}\n", "	if _, err := io.ReadFull(conn, buf[l:]); err != nil {\n		return nil, err\n	}\n")])
neg("C20", "neg-client-subscribe-continue", "client SUBACK loop with continue",
    [(SVC, "			if c == message.QosFailure {\n				err2 = fmt.Errorf(\"Failed to subscribe to '%s'\\n%v\", string(t), err2)\n			} else {\n				svc.sess.AddTopic(string(t), c)\n				_, err := svc.topicsMgr.Subscribe(t, c, &onPublish)\n				if err != nil {\n					err2 = fmt.Errorf(\"Failed to subscribe to '%s' (%v)\\n%v\", string(t), err, err2)\n				}\n			}",
      "			if c == message.QosFailure {\n				err2 = fmt.Errorf(\"Failed to subscribe to '%s'\\n%v\", string(t), err2)\n				continue\n			}\n			svc.sess.AddTopic(string(t), c)\n			if _, err := svc.topicsMgr.Subscribe(t, c, &onPublish); err != nil {\n				err2 = fmt.Errorf(\"Failed to subscribe to '%s' (%v)\\n%v\", string(t), err, err2)\n			}")])

# C06 level structure (T9)
pos("C06", "hash-does-not-cover-parent", "the fix of 28096fa undone",
    [(MT, "		if n, ok := sn.snodes[MWC]; ok {\n			n.matchQos(qos, subs, qoss)\n		}\n		return nil", "		return nil")],
    ["C06/T9-level-structure/smatch:multi-level-wildcard-covers-parent"])
pos("C06", "smatch-ends-on-empty-remainder", "the fix of 13eb4d8 undone in the subscription match",
    [(MT, "func (sn *snode) smatch(topic []byte, qos byte, subs *[]interface{}, qoss *[]byte) error {\n	// If the topic is empty, it means we are at the final matching snode. If so,\n	// let's find the subscribers that match the qos and append them to the list.\n	if topic == nil {",
      "func (sn *snode) smatch(topic []byte, qos byte, subs *[]interface{}, qoss *[]byte) error {\n	// If the topic is empty, it means we are at the final matching snode. If so,\n	// let's find the subscribers that match the qos and append them to the list.\n	if len(topic) == 0 {")],
    ["C06/T9-level-structure/smatch:end-of-levels-signal-unambiguous"])
neg("C06", "neg-hash-child-local", "the '#' child looked up into a local before the node's own subscribers",
    [(MT, "		sn.matchQos(qos, subs, qoss)\n		// The multi-level wildcard also matches its parent level: \"sport/#\"\n		// receives a publish to \"sport\" (MQTT-4.7.1-2).\n		if n, ok := sn.snodes[MWC]; ok {\n			n.matchQos(qos, subs, qoss)\n		}\n		return nil",
      "		hash, hasHash := sn.snodes[MWC]\n		if hasHash {\n			hash.matchQos(qos, subs, qoss)\n		}\n		sn.matchQos(qos, subs, qoss)\n		return nil")])

neg("C06", "neg-hash-child-range", "the '#' child found by ranging over the children",
    [(MT, "		if n, ok := sn.snodes[MWC]; ok {\n			n.matchQos(qos, subs, qoss)\n		}\n		return nil",
      "		for k, n := range sn.snodes {\n			if k == MWC {\n				n.matchQos(qos, subs, qoss)\n			}\n		}\n		return nil")])

# ---------------------------------------------------------------- C04 (additions to the hand-written file)
pos("C04", "engine-probe-loop-entry-value", "a loop index that starts at -1 and is used before the increment: candidate invariants must hold on the entry edge",
    [("message/disconnect.go", "func (m *DisconnectMessage) Decode(src []byte) (int, error) {\n	return m.header.decode(src)",
      "func zzProbe(src []byte) byte {\n	i := -1\n	var x byte\n	for k := 0; k < 3; k++ {\n		if i < len(src) {\n			x = src[i]\n		}\n		i++\n	}\n	return x\n}\n\nfunc (m *DisconnectMessage) Decode(src []byte) (int, error) {\n	_ = zzProbe(src)\n	return m.header.decode(src)")],
    ["C04/B1-in-bounds/message.zzProbe:index"])
pos("C04", "engine-probe-range-off-by-one", "a range loop that reads one element past the index",
    [("message/suback.go", "	for i, code := range m.returnCodes {\n		if code != 0x00 && code != 0x01 && code != 0x02 && code != 0x80 {\n			return total, fmt.Errorf(\"suback/Decode: Invalid return code %d for topic %d\", code, i)",
      "	for i := range m.returnCodes {\n		code := m.returnCodes[i+1]\n		if code != 0x00 && code != 0x01 && code != 0x02 && code != 0x80 {\n			return total, fmt.Errorf(\"suback/Decode: Invalid return code %d for topic %d\", code, i)")],
    ["C04/B1-in-bounds/(*message.SubackMessage).Decode:index"])
neg("C04", "neg-suback-index-loop", "SUBACK code validation as an index loop",
    [("message/suback.go", "	for i, code := range m.returnCodes {\n		if code != 0x00 && code != 0x01 && code != 0x02 && code != 0x80 {\n			return total, fmt.Errorf(\"suback/Decode: Invalid return code %d for topic %d\", code, i)",
      "	for i := 0; i < len(m.returnCodes); i++ {\n		code := m.returnCodes[i]\n		if code != 0x00 && code != 0x01 && code != 0x02 && code != 0x80 {\n			return total, fmt.Errorf(\"suback/Decode: Invalid return code %d for topic %d\", code, i)")])

# ---------------------------------------------------------------- controls for the rules added after seeded round 2
SUB = "message/subscribe.go"
AUTHF = "auth/authenticator.go"
pos("C13", "acked-fast-path-returns-stale-list", "an early return of Acked hands back the previous call's entries",
    [(AQ, "	aq.ackdone = aq.ackdone[0:0]\n\n	if aq.ping.State == message.PINGRESP {", "	if aq.empty() && aq.ping.State != message.PINGRESP {\n		return aq.ackdone\n	}\n\n	aq.ackdone = aq.ackdone[0:0]\n\n	if aq.ping.State == message.PINGRESP {")],
    ["C13/T5-co-update/Acked:result-built-in-this-call"])
neg("C13", "neg-acked-local-result", "Acked builds its result in a local slice",
    [(AQ, "	aq.ackdone = aq.ackdone[0:0]\n\n	if aq.ping.State == message.PINGRESP {\n		aq.ackdone = append(aq.ackdone, aq.ping)\n		aq.ping = AckMsg{}\n	}",
      "	aq.ackdone = nil\n\n	if aq.ping.State == message.PINGRESP {\n		aq.ackdone = append(aq.ackdone, aq.ping)\n		aq.ping = AckMsg{}\n	}")])
pos("C03", "header-flags-byte-copied", "the decoder keeps a private copy of the type/flags byte",
    [(HDR, "	h.mtypeflags = src[total : total+1]", "	h.mtypeflags = []byte{src[total]}")],
    ["C03/T3-dirty-discipline/(*message.header).decode:mtypeflags-is-view-of-input"])
pos("C03", "connect-username-written-when-flagged", "the encoder writes an empty user name that msglen does not count",
    [(CONN, "	if m.UsernameFlag() && len(m.username) > 0 {\n		n, err = writeLPBytes(dst[total:], m.username)", "	if m.UsernameFlag() {\n		n, err = writeLPBytes(dst[total:], m.username)")],
    ["C03/T10-length-writer-agreement/ConnectMessage:username:counted-iff-written"])
neg("C03", "neg-msglen-nested-guards", "msglen tests flag and length in nested ifs",
    [(CONN, "	if m.UsernameFlag() && len(m.username) > 0 {\n		total += 2 + len(m.username)\n	}", "	if m.UsernameFlag() {\n		if n := len(m.username); n > 0 {\n			total += 2 + n\n		}\n	}")])
pos("C03", "setqos-dirty-only-when-lowered", "raising the QoS of a decoded QoS 0 message is not marked dirty",
    [(PUB, "	if (p > 0) != (v > 0) {\n		m.dirty = true\n	}", "	if p > 0 && v == 0 {\n		m.dirty = true\n	}")],
    ["C03/T3-dirty-discipline/(*message.PublishMessage).SetQoS:dirty-when-raised-from-0"])
pos("C04", "header-qos-mask-lost", "the DUP bit is taken for part of the QoS",
    [(HDR, "	if h.Type() == PUBLISH && !ValidQos((h.Flags()>>1)&0x3) {", "	if h.Type() == PUBLISH && !ValidQos(h.Flags()>>1) {")],
    ["C04/T1-type-tables/header.decode:ValidQos-argument-reads-bits(0x6)"])
neg("C04", "neg-header-qos-local", "QoS bits extracted into a local first",
    [(HDR, "	if h.Type() == PUBLISH && !ValidQos((h.Flags()>>1)&0x3) {", "	qosBits := (h.Flags() & 0x6) >> 1\n	if h.Type() == PUBLISH && !ValidQos(qosBits) {")])
pos("C04", "lp-length-in-uint16", "the end offset of a length-prefixed field wraps around in uint16",
    [(MSG, "	n = int(binary.BigEndian.Uint16(buf))\n	total += 2\n\n	if len(buf) < total+n {", "	end := binary.BigEndian.Uint16(buf) + 2\n	n = int(end) - 2\n	total += 2\n\n	if len(buf) < int(end) {")],
    ["C04/B1-in-bounds/message.readLPBytes"])
pos("C09", "peek-skips-decode-for-short-packets", "two-byte packets are constructed from their type nibble without Decode",
    [(SR, "	msg, err = mtype.New()\n	if err != nil {\n		return nil, 0, err\n	}\n\n	n, err = msg.Decode(b)\n	return msg, n, err\n}\n\n// readMessage()", "	msg, err = mtype.New()\n	if err != nil {\n		return nil, 0, err\n	}\n\n	if total == 2 {\n		return msg, 2, nil\n	}\n\n	n, err = msg.Decode(b)\n	return msg, n, err\n}\n\n// readMessage()")],
    ["C09/P6-on-all-exits/peekMessage:every-packet-goes-through-Decode"])
neg("C09", "neg-peek-explicit-error", "peekMessage returns nil explicitly after a successful Decode",
    [(SR, "	n, err = msg.Decode(b)\n	return msg, n, err\n}\n\n// readMessage()", "	n, err = msg.Decode(b)\n	if err != nil {\n		return nil, 0, err\n	}\n	return msg, n, nil\n}\n\n// readMessage()")])
pos("C09", "readwait-closed-before-data", "the closed flag ends ReadWait although the requested bytes are buffered",
    [(BUF, "	for ppos = bf.pseq.get(); next > ppos; ppos = bf.pseq.get() {\n		if bf.isDone() {\n			bf.ccond.L.Unlock()\n			return nil, io.EOF\n		}\n\n		bf.ccond.Wait()\n	}", "	for {\n		if bf.isDone() {\n			bf.ccond.L.Unlock()\n			return nil, io.EOF\n		}\n\n		if ppos = bf.pseq.get(); next <= ppos {\n			break\n		}\n\n		bf.ccond.Wait()\n	}")],
    ["C09/P5-order/ReadWait:closed-flag-tested-only-when-data-is-missing"])
neg("C09", "neg-readwait-data-test-first", "ReadWait loop with the data test first and an explicit break",
    [(BUF, "	for ppos = bf.pseq.get(); next > ppos; ppos = bf.pseq.get() {\n		if bf.isDone() {\n			bf.ccond.L.Unlock()\n			return nil, io.EOF\n		}\n\n		bf.ccond.Wait()\n	}", "	for {\n		if ppos = bf.pseq.get(); next <= ppos {\n			break\n		}\n\n		if bf.isDone() {\n			bf.ccond.L.Unlock()\n			return nil, io.EOF\n		}\n\n		bf.ccond.Wait()\n	}")])
pos("C08", "clone-shares-flag-byte", "Clone is a struct copy that keeps the original's header slices",
    [(PUB, "	l := m.Len()\n	buf := make([]byte, l)\n	if _, err := m.Encode(buf); err != nil {\n		return nil, err\n	}\n	cm := NewPublishMessage()\n	if _, err := cm.Decode(buf); err != nil {\n		return nil, err\n	}\n	return cm, nil",
      "	cm := *m\n	cm.topic = append([]byte(nil), m.topic...)\n	cm.payload = append([]byte(nil), m.payload...)\n	cm.dbuf = nil\n	cm.dirty = true\n\n	return &cm, nil")],
    ["C08/G7-clone-before-mutate/PublishMessage.Clone:shares-nothing-with-the-original"])
neg("C08", "neg-clone-renamed", "Clone with other local names and an explicit length check",
    [(PUB, "	l := m.Len()\n	buf := make([]byte, l)\n	if _, err := m.Encode(buf); err != nil {\n		return nil, err\n	}\n	cm := NewPublishMessage()\n	if _, err := cm.Decode(buf); err != nil {\n		return nil, err\n	}\n	return cm, nil",
      "	image := make([]byte, m.Len())\n	n, err := m.Encode(image)\n	if err != nil {\n		return nil, err\n	}\n	dup := NewPublishMessage()\n	if _, err = dup.Decode(image[:n]); err != nil {\n		return nil, err\n	}\n	return dup, nil")])
pos("C10", "session-topics-sorted-alone", "Topics() sorts the filters but not the QoS values",
    [(SESS, "	for k, v := range s.topics {\n		topics = append(topics, k)\n		qoss = append(qoss, v)\n	}\n", "	for k, v := range s.topics {\n		topics = append(topics, k)\n		qoss = append(qoss, v)\n	}\n	sortStrings(topics)\n"),
     (SESS, "// ID returns the session ID.", "func sortStrings(a []string) {\n	for i := 1; i < len(a); i++ {\n		for j := i; j > 0 && a[j] < a[j-1]; j-- {\n			a[j], a[j-1] = a[j-1], a[j]\n		}\n	}\n}\n\n// ID returns the session ID.")],
    ["C10/T5-co-update/Session.Topics:parallel-lists-stay-in-step"])
neg("C10", "neg-session-topics-prealloc", "Topics() preallocates its result lists",
    [(SESS, "	var (\n		topics []string\n		qoss   []byte\n	)\n", "	topics := make([]string, 0, len(s.topics))\n	qoss := make([]byte, 0, len(s.topics))\n")])
pos("C10", "session-key-read-before-id-replacement", "the store key is read before an empty client id is replaced",
    [(SRV, "	if len(req.ClientID()) == 0 {\n		req.SetClientID([]byte(fmt.Sprintf(\"internalclient%d\", svc.id)))\n		req.SetCleanSession(true)\n	}\n\n	cid := string(req.ClientID())\n", "	cid := string(req.ClientID())\n\n	if len(req.ClientID()) == 0 {\n		req.SetClientID([]byte(fmt.Sprintf(\"internalclient%d\", svc.id)))\n		req.SetCleanSession(true)\n	}\n")],
    ["C10/P9-who-may/getSession:New:key-read-after-id-replacement"])
pos("C11", "auth-manager-caches-logins", "accepted logins are cached under a key that two different logins can share",
    [(AUTHF, "func (m *Manager) Authenticate(id string, cred interface{}) error {\n	return m.p.Authenticate(id, cred)\n}", "var okLogins = map[string]bool{}\n\nfunc (m *Manager) Authenticate(id string, cred interface{}) error {\n	key := fmt.Sprint(id, cred)\n	if okLogins[key] {\n		return nil\n	}\n	err := m.p.Authenticate(id, cred)\n	if err == nil {\n		okLogins[key] = true\n	}\n	return err\n}")],
    ["C11/P6-on-all-exits/auth.Manager.Authenticate:asks-the-provider-about-this-login"])
neg("C11", "neg-auth-manager-explicit", "Authenticate with an explicit error test",
    [(AUTHF, "func (m *Manager) Authenticate(id string, cred interface{}) error {\n	return m.p.Authenticate(id, cred)\n}", "func (m *Manager) Authenticate(id string, cred interface{}) error {\n	if err := m.p.Authenticate(id, cred); err != nil {\n		return err\n	}\n	return nil\n}")])
pos("C07", "subscribe-decode-merges-repeated-filters", "a filter listed twice in one SUBSCRIBE is decoded once",
    [(SUB, "		m.topics = append(m.topics, t)\n\n		m.qos = append(m.qos, src[total])\n		total++\n", "		if !m.TopicExists(t) {\n			m.topics = append(m.topics, t)\n			m.qos = append(m.qos, src[total])\n		}\n		total++\n")],
    ["C07/P4-loop-contract/SubscribeMessage.Decode:keeps-every-listed-filter"])
neg("C07", "neg-subscribe-decode-locals", "decode loop with the QoS byte in a local",
    [(SUB, "		m.topics = append(m.topics, t)\n\n		m.qos = append(m.qos, src[total])\n		total++\n", "		q := src[total]\n		total++\n		m.topics = append(m.topics, t)\n		m.qos = append(m.qos, q)\n")])

# ---------------------------------------------------------------- ring memory safety (B10)
pos("C14", "ring-mask-equals-size", "the constructor sets mask = size: indices can reach len(buf)",
    [(BUF, "		mask:  size - 1,", "		mask:  size,")],
    ["C14/B10-ring-memory-safety/newBuffer:establishes-size-invariant"])
pos("C14", "readwait-accepts-oversized-request", "ReadWait no longer refuses a request larger than the ring: the wrap path slices beyond the buffer",
    [(BUF, "func (bf *buffer) ReadWait(n int) ([]byte, error) {\n	if int64(n) > bf.size {\n		return nil, bufio.ErrBufferFull\n	}\n", "func (bf *buffer) ReadWait(n int) ([]byte, error) {\n")],
    ["C14/B10-ring-memory-safety/(*service.buffer).ReadWait:slice"])
pos("C14", "writewait-wrap-test-off-by-one", "the in-place slice may end one byte past the buffer",
    [(BUF, "	if pstart+int64(cnt) > bf.size {\n		return bf.buf[pstart:], true, nil\n	}", "	if pstart+int64(cnt) > bf.size+1 {\n		return bf.buf[pstart:], true, nil\n	}")],
    ["C14/B10-ring-memory-safety/(*service.buffer).WriteWait:slice"])
neg("C14", "neg-ring-constructor-locals", "constructor builds the ring through locals",
    [(BUF, "	return &buffer{\n		id:    atomic.AddInt64(&bufcnt, 1),\n		buf:   make([]byte, size),\n		size:  size,\n		mask:  size - 1,", "	storage := make([]byte, size)\n	return &buffer{\n		id:    atomic.AddInt64(&bufcnt, 1),\n		buf:   storage,\n		size:  int64(len(storage)),\n		mask:  int64(len(storage)) - 1,")])
neg("C14", "neg-writewait-end-local", "WriteWait with the end index in a local and the test reversed",
    [(BUF, "	if pstart+int64(cnt) > bf.size {\n		return bf.buf[pstart:], true, nil\n	}\n\n	return bf.buf[pstart : pstart+int64(cnt)], false, nil", "	end := pstart + int64(cnt)\n	if end <= bf.size {\n		return bf.buf[pstart:end], false, nil\n	}\n\n	return bf.buf[pstart:], true, nil")])

# ---------------------------------------------------------------- ring space accounting (B11)
pos("C14", "space-wait-accepts-one-byte-overlap", "fast path and wait loop both let the producer lap the consumer by one byte (consistent edit: L3c stays silent)",
    [(BUF, "	if wrap > gate || gate > ppos {", "	if wrap > gate+1 || gate > ppos {"),
     (BUF, "		for cpos = bf.cseq.get(); wrap > cpos; cpos = bf.cseq.get() {", "		for cpos = bf.cseq.get(); wrap > cpos+1; cpos = bf.cseq.get() {")],
    ["C14/B11-ring-space-accounting/waitForWriteSpace:return#1:space-is-free"])
pos("C14", "space-gate-cached-ahead", "the cached gate is advanced beyond what was read from the consumer",
    [(BUF, "		bf.pseq.gate = cpos\n", "		bf.pseq.gate = cpos + defaultReadBlockSize\n")],
    ["C14/B11-ring-space-accounting/waitForWriteSpace:store(pseq.gate):value-is-a-read-of-the-other-cursor"])
pos("C14", "space-readcommit-beyond-producer", "ReadCommit no longer checks the commit against the producer position",
    [(BUF, "	if cpos+int64(n) <= ppos {\n		bf.cseq.set(cpos + int64(n))", "	if cpos <= ppos {\n		bf.cseq.set(cpos + int64(n))")],
    ["C14/B11-ring-space-accounting/ReadCommit:store(cseq)#1:never-passes-the-producer"])
pos("C14", "space-readpeek-hands-out-more-than-available", "ReadPeek clamps the peek to the request instead of to what is available",
    [(BUF, "	if m >= int64(n) {\n		m = int64(n)\n	} else {\n		err = ErrBufferInsufficientData\n	}\n\n	// There's data to peek. The size of the data could be <= n.\n	if cpos+m <= ppos {", "	if m < int64(n) {\n		err = ErrBufferInsufficientData\n	}\n	m = int64(n)\n\n	// There's data to peek. The size of the data could be <= n.\n	if cpos <= ppos {")],
    ["C14/B11-ring-space-accounting/ReadPeek:return"])
pos("C14", "space-writecommit-commits-more-than-reserved", "WriteCommit rounds the commit up to a block",
    [(BUF, "	bf.pseq.set(start + int64(cnt))\n", "	bf.pseq.set(start + int64(cnt) + 1)\n")],
    ["C14/B11-ring-space-accounting/WriteCommit:store(pseq)#1:commits-exactly-the-reservation"])
pos("C14", "space-readfrom-window-exceeds-reservation", "the socket reader reads into the whole rest of the ring instead of the reserved block",
    [(BUF, "		pend := pstart + int64(cnt)\n		if pend > bf.size {\n			pend = bf.size\n		}\n", "		pend := bf.size\n		_ = cnt\n")],
    ["C14/B11-ring-space-accounting/ReadFrom:slice#1:write-window-within-the-reservation"])
pos("C14", "space-read-advances-by-request", "Read advances the consumer by the size of the caller's buffer instead of by the bytes copied",
    [(BUF, "				n = copy(p, bf.buf[cindex:])\n			}\n\n			bf.cseq.set(cpos + int64(n))", "				n = copy(p, bf.buf[cindex:])\n			}\n\n			bf.cseq.set(cpos + pl)")],
    ["C14/B11-ring-space-accounting/Read:store(cseq)#2:never-passes-the-producer"])
pos("C14", "space-read-first-branch-advances-by-request", "the first branch of Read advances the consumer by len(p) although copy may have stopped at the end of the ring",
    [(BUF, "			n := copy(p, bf.buf[cindex:])\n\n			bf.cseq.set(cpos + int64(n))", "			n := copy(p, bf.buf[cindex:])\n\n			bf.cseq.set(cpos + pl)")],
    ["C14/B11-ring-space-accounting/Read:return#1:advances-by-the-count-reported"])
pos("C14", "space-readcommit-reports-other-count", "ReadCommit reports the request although it advanced by one byte less",
    [(BUF, "	if cpos+int64(n) <= ppos {\n		bf.cseq.set(cpos + int64(n))", "	if cpos+int64(n) <= ppos {\n		bf.cseq.set(cpos + int64(n) - 1)")],
    ["C14/B11-ring-space-accounting/ReadCommit:return#1:advances-by-the-count-reported"])
neg("C14", "neg-space-consumed-helper", "store of the consumer cursor and the wake-up of the producer in a helper consumed(pos)",
    [(BUF, "			n := copy(p, bf.buf[cindex:])\n\n			bf.cseq.set(cpos + int64(n))\n			bf.pcond.L.Lock()\n			bf.pcond.Broadcast()\n			bf.pcond.L.Unlock()\n", "			n := copy(p, bf.buf[cindex:])\n\n			bf.consumed(cpos + int64(n))\n"),
     (BUF, "func (bf *buffer) isDone() bool {", "func (bf *buffer) consumed(pos int64) {\n	bf.cseq.set(pos)\n	bf.pcond.L.Lock()\n	bf.pcond.Broadcast()\n	bf.pcond.L.Unlock()\n}\n\nfunc (bf *buffer) isDone() bool {")])
neg("C14", "neg-space-wait-rewritten", "space wait with the comparison written the other way round and the free space in a local",
    [(BUF, "	if wrap > gate || gate > ppos {", "	if gate < wrap || ppos < gate {"),
     (BUF, "		for cpos = bf.cseq.get(); wrap > cpos; cpos = bf.cseq.get() {", "		for cpos = bf.cseq.get(); cpos < wrap; cpos = bf.cseq.get() {")])
neg("C14", "neg-space-readcommit-next-local", "ReadCommit computes the next position once",
    [(BUF, "	if cpos+int64(n) <= ppos {\n		bf.cseq.set(cpos + int64(n))", "	next := cpos + int64(n)\n	if next <= ppos {\n		bf.cseq.set(next)")])
neg("C14", "neg-space-writecommit-next-local", "WriteCommit computes the next position in a local",
    [(BUF, "	bf.pseq.set(start + int64(cnt))\n", "	next := start + int64(cnt)\n	bf.pseq.set(next)\n")])

# ---------------------------------------------------------------- decode within the packet (B12)
_NOTE = "\t// The packet ends where its remaining length says, not where src ends.\n\tsrc = src[:total+int(m.remlen)]\n"
pos("C04", "puback-reads-beyond-packet", "the PUBACK family takes the packet id from whatever follows a packet whose remaining length is 0",
    [("message/puback.go", _NOTE, "")],
    ["C04/B12-decode-within-packet/(*message.PubackMessage).Decode:return#1:count-within-the-packet"])
pos("C04", "subscribe-reads-beyond-packet", "SUBSCRIBE reads filters from whatever follows the packet",
    [(SUB, _NOTE, "")],
    ["C04/B12-decode-within-packet/(*message.SubscribeMessage).Decode:return#1:count-within-the-packet"])
pos("C04", "connect-reads-beyond-packet", "CONNECT reads its fields from whatever follows the packet",
    [(CONN, _NOTE, "")],
    ["C04/B12-decode-within-packet/(*message.ConnectMessage).Decode:return#1:count-within-the-packet"])
neg("C04", "neg-puback-body-from-image", "the PUBACK body is decoded from the header's packet image",
    [("message/puback.go", _NOTE, "\tsrc = m.dbuf\n")])
neg("C04", "neg-unsubscribe-packet-end-local", "UNSUBSCRIBE computes the packet end in a local",
    [("message/unsubscribe.go", _NOTE, "\tend := total + int(m.remlen)\n\tsrc = src[:end]\n")])

neg("C14", "neg-readpeek-copy-assembly", "the wrapped peek is assembled with make-if-too-short and two copies, and cut to the peeked length",
    [(BUF, "			// reset the tmp buffer\n			bf.tmp = bf.tmp[0:0]\n\n			l := len(bf.buf[cindex:])\n			bf.tmp = append(bf.tmp, bf.buf[cindex:]...)\n			bf.tmp = append(bf.tmp, bf.buf[0:m-int64(l)]...)\n			return bf.tmp, err",
            "			if int64(len(bf.tmp)) < m {\n				bf.tmp = make([]byte, m)\n			}\n\n			l := copy(bf.tmp, bf.buf[cindex:])\n			copy(bf.tmp[l:], bf.buf[0:m-int64(l)])\n			return bf.tmp[:m], err")])
pos("C14", "readpeek-copy-assembly-returns-whole-scratch", "the copy-based assembly returns the whole scratch buffer, which keeps the length of the largest earlier wrapped peek",
    [(BUF, "			// reset the tmp buffer\n			bf.tmp = bf.tmp[0:0]\n\n			l := len(bf.buf[cindex:])\n			bf.tmp = append(bf.tmp, bf.buf[cindex:]...)\n			bf.tmp = append(bf.tmp, bf.buf[0:m-int64(l)]...)\n			return bf.tmp, err",
            "			if int64(len(bf.tmp)) < m {\n				bf.tmp = make([]byte, m)\n			}\n\n			l := copy(bf.tmp, bf.buf[cindex:])\n			copy(bf.tmp[l:], bf.buf[0:m-int64(l)])\n			return bf.tmp, err")],
    ["C14/B11-ring-space-accounting/ReadPeek:return"])

# ---------------------------------------------------------------- rules added after the third seeded round
for _p in ("C02", "C12", "C13"):
    pos(_p, "session-update-replaces-drained-queue", "a resumed session gets fresh in-flight queues, guarded by the wrong queue's length",
        [(SESS, "		s.Will.SetRetain(s.Cmsg.WillRetain())\n	}\n\n	return nil\n}\n\n// RetainMessage", "		s.Will.SetRetain(s.Cmsg.WillRetain())\n	}\n\n	if s.Pub2out.len() == 0 {\n		s.Pub2in = newAckqueue(defaultQueueSize)\n	}\n\n	return nil\n}\n\n// RetainMessage")],
        [_p + "/P9-who-may/Session.Pub2in:created-once-by-Init"])
neg("C13", "neg-session-init-queues-helper-loop", "Init creates the queues through a local helper closure",
    [(SESS, "	s.Pub1ack = newAckqueue(defaultQueueSize)\n	s.Pub2in = newAckqueue(defaultQueueSize)\n", "	mk := func() *Ackqueue { return newAckqueue(defaultQueueSize) }\n	s.Pub1ack = mk()\n	s.Pub2in = mk()\n")])
for _p in ("C06", "C01"):
    pos(_p, "subscribers-early-return-before-reset", "Subscribers returns nil for an empty tree before it has emptied the caller's reused lists",
        [(MT, "	*subs = (*subs)[0:0]\n	*qoss = (*qoss)[0:0]\n\n	return mt.sroot.smatch", "	if len(mt.sroot.snodes) == 0 {\n		return nil\n	}\n\n	*subs = (*subs)[0:0]\n	*qoss = (*qoss)[0:0]\n\n	return mt.sroot.smatch")],
        [_p + "/P5-order/Subscribers:subs:emptied-before-any-successful-return"])
neg("C06", "neg-subscribers-reset-first", "Subscribers empties the lists first and has an early return for an empty tree afterwards",
    [(MT, "	*subs = (*subs)[0:0]\n	*qoss = (*qoss)[0:0]\n\n	return mt.sroot.smatch", "	*subs = (*subs)[:0]\n	*qoss = (*qoss)[:0]\n\n	if len(mt.sroot.snodes) == 0 {\n		return nil\n	}\n\n	return mt.sroot.smatch")])
pos("C08", "rinsert-skips-unchanged-payload", "a retained PUBLISH with the payload already stored is dropped, although its QoS differs",
    [(MT, "		// A previously stored message may have been handed out by Retained() and\n", "		if rn.msg != nil && string(rn.msg.Payload()) == string(msg.Payload()) {\n			return nil\n		}\n		// A previously stored message may have been handed out by Retained() and\n")],
    ["C08/P6-on-all-exits/rinsert:base-case:stores-the-message-on-every-successful-path"])
neg("C08", "neg-rinsert-store-helper", "the store of the fresh copy extracted into a method",
    [(MT, "		rn.buf = buf\n		rn.msg = rmsg\n", "		rn.replace(buf, rmsg)\n"),
     (MT, "func (rn *rnode) rinsert(topic []byte, msg *message.PublishMessage) error {", "func (rn *rnode) replace(buf []byte, rmsg *message.PublishMessage) {\n	rn.buf = buf\n	rn.msg = rmsg\n}\n\nfunc (rn *rnode) rinsert(topic []byte, msg *message.PublishMessage) error {")])
for _p in ("C10", "C16"):
    pos(_p, "accept-deletes-session-on-connack-failure", "a CONNACK that cannot be written removes the session from the store, persistent or not",
        [(SRV, "	if err = writeMessage(c, resp); err != nil {\n		return nil, err\n	}\n\n	svc.inStat", "	if err = writeMessage(c, resp); err != nil {\n		svr.sessMgr.Del(svc.sess.ID())\n		return nil, err\n	}\n\n	svc.inStat")],
        [_p + "/P9-who-may/(*service.Server).handleConnection:Manager.Del:only-at-teardown"])
    pos(_p, "restore-registers-copy-of-the-callback", "the restored subscriptions are registered under the address of a local copy of the callback",
        [(SVC, "		for i, t := range topics {\n			svc.topicsMgr.Subscribe([]byte(t), qoss[i], &svc.onpub)\n		}", "		onpub := svc.onpub\n		for i, t := range topics {\n			svc.topicsMgr.Subscribe([]byte(t), qoss[i], &onpub)\n		}")],
        [_p + "/P9-who-may/start:Subscribe-token"])
neg("C10", "neg-teardown-delete-helper", "teardown removes a clean session through a helper",
    [(SVC, "	if svc.sess.Cmsg.CleanSession() && svc.sessMgr != nil {\n		svc.sessMgr.Del(svc.sess.ID())\n	}\n", "	svc.discardCleanSession()\n"),
     (SVC, "func (svc *service) isDone() bool {", "func (svc *service) discardCleanSession() {\n	if svc.sess.Cmsg.CleanSession() && svc.sessMgr != nil {\n		svc.sessMgr.Del(svc.sess.ID())\n	}\n}\n\nfunc (svc *service) isDone() bool {")])
pos("C19", "sender-write-moves-read-deadline", "the sender arms a deadline with SetDeadline, which moves the read deadline that bounds the client's silence",
    [(SR, "func (r timeoutReader) Read(b []byte) (int, error) {", "type timeoutWriter struct {\n	d    time.Duration\n	conn net.Conn\n}\n\nfunc (w timeoutWriter) Write(b []byte) (int, error) {\n	if err := w.conn.SetDeadline(time.Now().Add(w.d)); err != nil {\n		return 0, err\n	}\n	return w.conn.Write(b)\n}\n\nfunc (r timeoutReader) Read(b []byte) (int, error) {"),
     (SR, "			_, err := svc.out.WriteTo(conn)\n", "			_, err := svc.out.WriteTo(timeoutWriter{d: time.Minute, conn: conn})\n")],
    ["C19/P9-who-may/(service.timeoutWriter).Write:SetDeadline:read-deadline-moved-only-by-the-deadline-reader"])
neg("C19", "neg-sender-write-deadline", "the sender arms a write deadline (which does not touch the read deadline)",
    [(SR, "func (r timeoutReader) Read(b []byte) (int, error) {", "type timeoutWriter struct {\n	d    time.Duration\n	conn net.Conn\n}\n\nfunc (w timeoutWriter) Write(b []byte) (int, error) {\n	if err := w.conn.SetWriteDeadline(time.Now().Add(w.d)); err != nil {\n		return 0, err\n	}\n	return w.conn.Write(b)\n}\n\nfunc (r timeoutReader) Read(b []byte) (int, error) {"),
     (SR, "			_, err := svc.out.WriteTo(conn)\n", "			_, err := svc.out.WriteTo(timeoutWriter{d: time.Minute, conn: conn})\n")])
pos("C20", "client-unsubscribe-walks-captured-filters", "the UNSUBACK closure walks the filter slice of the caller's message, captured when the request was sent",
    [(SVC, "	var onc OnCompleteFunc = func(msg, ack message.Message, err error) error {\n		onComplete := onComplete\n\n		if err != nil {\n			if onComplete != nil {\n				return onComplete(msg, ack, err)\n			}\n			return err\n		}\n\n		unsub", "	filters := msg.Topics()\n\n	var onc OnCompleteFunc = func(msg, ack message.Message, err error) error {\n		onComplete := onComplete\n\n		if err != nil {\n			if onComplete != nil {\n				return onComplete(msg, ack, err)\n			}\n			return err\n		}\n\n		unsub"),
     (SVC, "		for _, tb := range unsub.Topics() {", "		for _, tb := range filters {")],
    ["C20/P4-loop-contract/client-unsubscribe:walks-the-stored-request"])
pos("C05", "fanout-stops-at-first-dead-subscriber", "a failing delivery ends the fan-out: the subscribers listed after a dead one miss the message",
    [(PROC, "			if err := (*fn)(msg); err != nil {\n				log.Warningf(\"%v\", err)\n			}", "			if err := (*fn)(msg); err != nil {\n				return err\n			}")],
    ["C05/P4-loop-contract/onPublish:fan-out"])
pos("C17", "readpeek-returns-whole-scratch", "the sender's peek returns the whole scratch buffer after a copy-based assembly",
    [(BUF, "			// reset the tmp buffer\n			bf.tmp = bf.tmp[0:0]\n\n			l := len(bf.buf[cindex:])\n			bf.tmp = append(bf.tmp, bf.buf[cindex:]...)\n			bf.tmp = append(bf.tmp, bf.buf[0:m-int64(l)]...)\n			return bf.tmp, err",
            "			if int64(len(bf.tmp)) < m {\n				bf.tmp = make([]byte, m)\n			}\n\n			l := copy(bf.tmp, bf.buf[cindex:])\n			copy(bf.tmp[l:], bf.buf[0:m-int64(l)])\n			return bf.tmp, err")],
    ["C17/B11-ring-space-accounting/ReadPeek:return"])
for _p in ("C01", "C07"):
    pos(_p, "sremove-ends-on-empty-remainder", "the unsubscribe walk ends on an empty remainder: 'x/' is removed as 'x'",
        [(MT, "func (sn *snode) sremove(topic []byte, sub interface{}) error {\n	// If the topic is empty, it means we are at the final matching snode. If so,\n	// let's find the matching subscribers and remove them.\n	if topic == nil {", "func (sn *snode) sremove(topic []byte, sub interface{}) error {\n	// If the topic is empty, it means we are at the final matching snode. If so,\n	// let's find the matching subscribers and remove them.\n	if len(topic) == 0 {")],
        [_p + "/T9-level-structure/sremove:end-of-levels-signal-unambiguous"])

# ---------------------------------------------------------------- failed results on the accept path (P7b)
_LOGREQ = ("	if err != nil {\n		log.Warningf(\"Decoding of connect message failed: %v\", err)\n		if cerr, ok := err.(message.ConnackCode); ok {\n",
           "	if err != nil {\n		log.Warningf(\"Decoding of connect message failed: %v\", err)\n		if cerr, ok := err.(message.ConnackCode); ok {\n			log.Debugf(\"(%s) Refusing connection with return code %d\", req.ClientID(), cerr.Value())\n")
pos("C05", "accept-uses-request-after-failed-decode", "the CONNECT reader returns nil on a decode failure and the refusal path logs the client id of the request (two cooperating sites)",
    [(SRV, _LOGREQ[0], _LOGREQ[1]),
     (MISC, "	msg := message.NewConnectMessage()\n\n	_, err = msg.Decode(buf)\n	return msg, err\n", "	msg := message.NewConnectMessage()\n\n	if _, err = msg.Decode(buf); err != nil {\n		return nil, err\n	}\n	return msg, nil\n")],
    ["C05/P7b-failed-result-not-used/(*service.Server).handleConnection:getConnectMessage#0:result-not-used-after-failure"])
neg("C05", "neg-accept-logs-request-of-refused-connect", "the refusal path logs the client id of the decoded request (the reader still returns the message with a ConnackCode error)",
    [(SRV, _LOGREQ[0], _LOGREQ[1])])
pos("C05", "readwait-accepts-oversized-request-stalls", "ReadWait no longer refuses a request larger than the ring: the processor waits forever for bytes that cannot fit",
    [(BUF, "func (bf *buffer) ReadWait(n int) ([]byte, error) {\n	if int64(n) > bf.size {\n		return nil, bufio.ErrBufferFull\n	}\n", "func (bf *buffer) ReadWait(n int) ([]byte, error) {\n")],
    ["C05/P5-order/ReadWait:rejects-packet-larger-than-ring"])

# ---------------------------------------------------------------- rules added after the fourth seeded round
pos("C08", "rinsert-keeps-slices-of-the-publish", "the retained copy is built with setters from the topic and payload slices of the PUBLISH being retained (views of the publisher's ring)",
    [(MT, "		buf := make([]byte, msg.Len())\n\n		if _, err := msg.Encode(buf); err != nil {\n			return err\n		}\n\n		rmsg := message.NewPublishMessage()\n\n		if _, err := rmsg.Decode(buf); err != nil {\n			return err\n		}\n",
          "		rmsg := message.NewPublishMessage()\n\n		if err := rmsg.SetTopic(msg.Topic()); err != nil {\n			return err\n		}\n\n		rmsg.SetPayload(msg.Payload())\n		rmsg.SetQoS(msg.QoS())\n		rmsg.SetRetain(true)\n\n		buf := make([]byte, rmsg.Len())\n\n		if _, err := rmsg.Encode(buf); err != nil {\n			return err\n		}\n")],
    ["C08/G6-fresh-copy-on-retention/(*topics.rnode).rinsert:retained-message-shares-no-bytes-with-the-publish"])
pos("C11", "connect-decode-wraps-the-refusal-code", "the CONNECT decoder wraps the error of its body decoder: the accept function's type assertion no longer finds the CONNACK code",
    [(CONN, "	if n, err = m.decodeMessage(src[total:]); err != nil {\n		return total + n, err\n	}\n	total += n\n\n	m.dirty = false", "	if n, err = m.decodeMessage(src[total:]); err != nil {\n		return total + n, fmt.Errorf(\"connect/Decode: at offset %d: %w\", total, err)\n	}\n	total += n\n\n	m.dirty = false")],
    ["C11/P6-on-all-exits/(*message.ConnectMessage).Decode:error-of-decodeMessage-returned-unchanged"])
neg("C11", "neg-connect-decode-error-local", "the CONNECT decoder returns the body decoder's error through a local",
    [(CONN, "	if n, err = m.decodeMessage(src[total:]); err != nil {\n		return total + n, err\n	}\n	total += n\n\n	m.dirty = false", "	n, derr := m.decodeMessage(src[total:])\n	total += n\n	if derr != nil {\n		return total, derr\n	}\n\n	m.dirty = false")])
for _p in ("C18", "C08"):
    pos(_p, "publish-renumbers-shared-retained-message", "the server-side publish gives the message a connection-scoped identifier in place - also when it is a retained message shared by all subscribers",
        [(SVC, "func (svc *service) publish(msg *message.PublishMessage, onComplete OnCompleteFunc) error {\n	_, err := svc.writeMessage(msg)", "func (svc *service) publish(msg *message.PublishMessage, onComplete OnCompleteFunc) error {\n	if !svc.client && msg.QoS() != message.QosAtMostOnce {\n		msg.SetPacketID(uint16(svc.id%65535) + 1)\n	}\n\n	_, err := svc.writeMessage(msg)")],
        [_p + "/G7-clone-before-mutate/processSubscribe:publish-mutates-retained-argument"])
for _p in ("C16", "C10"):
    pos(_p, "anonymous-client-keeps-empty-identifier", "a CONNECT without client identifier is no longer given a generated one: the store makes up a key teardown never deletes",
        [(SRV, "		req.SetClientID([]byte(fmt.Sprintf(\"internalclient%d\", svc.id)))\n		req.SetCleanSession(true)", "		_ = fmt.Sprintf\n		req.SetCleanSession(true)")],
        [_p + "/P8-guard-contract/getSession:empty-client-id-gets-an-identifier"])
pos("C01", "server-publish-shares-its-result-lists", "Server.Publish keeps its subscriber lists in fields of the Server, locking only the lookup",
    [(SRV, "	var subs []interface{}\n	var qoss []byte\n\n	if err := svr.topicsMgr.Subscribers(msg.Topic(), msg.QoS(), &subs, &qoss); err != nil {\n		return err\n	}", "	svr.mu.Lock()\n	err := svr.topicsMgr.Subscribers(msg.Topic(), msg.QoS(), &svr.psubs, &svr.pqoss)\n	subs, qoss := svr.psubs, svr.pqoss\n	svr.mu.Unlock()\n	if err != nil {\n		return err\n	}"),
     (SRV, "	// A indicator on whether this server has already checked configuration\n	configOnce sync.Once\n", "	// A indicator on whether this server has already checked configuration\n	configOnce sync.Once\n\n	psubs []interface{}\n	pqoss []byte\n")],
    ["C01/P9-who-may/Publish:fan-out:result-lists-private"])
pos("C01", "processor-commits-before-fan-out", "the bytes of a peeked PUBLISH are released before it has been fanned out",
    [(PROC, """		err = p.processIncoming(msg)
		if err != nil {
			if err != errDisconnect {
				log.Warningf("(%s) Error processing %s: %v", p.cid(), msg.Name(), err)
			} else {
				return
			}
		}

		// 7. We should commit the bytes in the buffer so we can move on
		_, err = p.in.ReadCommit(total)
		if err != nil {
			if !isEOF(err) {
				log.Errorf("(%s) Error committing %d read bytes: %v", p.cid(), total, err)
			}
			return
		}
""", """		_, err = p.in.ReadCommit(total)
		if err != nil {
			if !isEOF(err) {
				log.Errorf("(%s) Error committing %d read bytes: %v", p.cid(), total, err)
			}
			return
		}

		err = p.processIncoming(msg)
		if err != nil {
			if err != errDisconnect {
				log.Warningf("(%s) Error processing %s: %v", p.cid(), msg.Name(), err)
			} else {
				return
			}
		}
""")],
    ["C01/P5-order/processor:commit-after-use-of-peeked-bytes"])


# ---------------------------------------------------------------- rules of seeded round 5
PA = "message/puback.go"
SA = "message/suback.go"
MISC = "service/misc.go"
SREMOVE_OLD = "				sn.subs = append(sn.subs[:i], sn.subs[i+1:]...)\n				sn.qos = append(sn.qos[:i], sn.qos[i+1:]...)\n"
for prop in ("C06", "C01"):
    pos(prop, "sremove-qos-only-truncated", "the subscriber list is shifted over the removed entry, the QoS list only loses its last entry",
        [(MT, SREMOVE_OLD, "				last := len(sn.subs) - 1\n				copy(sn.subs[i:], sn.subs[i+1:])\n				sn.subs[last] = nil\n				sn.subs = sn.subs[:last]\n				sn.qos = sn.qos[:last]\n")],
        [prop + "/T5-co-update/sremove:parallel-lists-shrink-alike"])
    pos(prop, "sremove-swap-vs-shift", "swap-delete on the subscriber list, shift-delete on the QoS list",
        [(MT, SREMOVE_OLD, "				last := len(sn.subs) - 1\n				sn.subs[i] = sn.subs[last]\n				sn.subs[last] = nil\n				sn.subs = sn.subs[:last]\n				sn.qos = append(sn.qos[:i], sn.qos[i+1:]...)\n")],
        [prop + "/T5-co-update/sremove:parallel-lists-shrink-alike"])
    neg(prop, "neg-sremove-copy-shift-both", "both lists shifted with copy and shortened by one",
        [(MT, SREMOVE_OLD, "				last := len(sn.subs) - 1\n				copy(sn.subs[i:], sn.subs[i+1:])\n				sn.subs[last] = nil\n				sn.subs = sn.subs[:last]\n				copy(sn.qos[i:], sn.qos[i+1:])\n				sn.qos = sn.qos[:last]\n")])
    pos(prop, "equal-falls-back-to-deepequal", "tokens that are not == are compared structurally",
        [(MT, "		return k1 == k2.(uintptr)\n	}\n\n	return false\n}", "		return k1 == k2.(uintptr)\n	}\n\n	return reflect.DeepEqual(k1, k2)\n}")],
        [prop + "/T5-co-update/subscriber-identity:decided-by-=="])
pos("C03", "puback-id-by-copy-count", "the acknowledgement encoder advances by the number of identifier bytes copied (0 for an unset identifier)",
    [(PA, "	if copy(dst[total:total+2], m.packetID) != 2 {\n		dst[total], dst[total+1] = 0, 0\n	}\n	total += 2\n", "	n = copy(dst[total:], m.packetID)\n	total += n\n")],
    ["C03/T10-length-writer-agreement/(*message.PubackMessage).Encode:packet-id-written-as-two-bytes"])
pos("C03", "header-decode-copies-flag-byte", "the header decoder copies the type/flags byte into the message's own buffer",
    [(HDR, "	h.mtypeflags = src[total : total+1]\n", "	h.mtypeflags[0] = src[total]\n")],
    ["C03/T3-dirty-discipline/(*message.header).decode:mtypeflags-is-view-of-input"])
pos("C07", "suback-len-without-remaining-length", "SubackMessage.Len adds the body to a header length computed for the old remaining length",
    [(SA, "	ml := m.msglen()\n\n	if err := m.SetRemainingLength(int32(ml)); err != nil {\n		return 0\n	}\n\n	return m.header.msglen() + ml\n}\n\n// Decode decodes the message.", "	return m.header.msglen() + m.msglen()\n}\n\n// Decode decodes the message.")],
    ["C07/T3-dirty-discipline/(*message.SubackMessage).Len:header-length-after-remaining-length"])
pos("C04", "connect-refuses-username-without-password", "a new flag validation with the wrong mask refuses user name without password",
    [(CONN, "	if len(src[total:]) < 2 {\n		return 0, fmt.Errorf(\"connect/decodeMessage: Insufficient buffer size. Expecting %d, got %d\", 2, len(src[total:]))\n	}\n", "	if m.connectFlags&0xc0 == 0x80 {\n		return total, fmt.Errorf(\"connect/decodeMessage: password flag without user name flag\")\n	}\n\n	if len(src[total:]) < 2 {\n		return 0, fmt.Errorf(\"connect/decodeMessage: Insufficient buffer size. Expecting %d, got %d\", 2, len(src[total:]))\n	}\n")],
    ["C04/T12-flag-refusals-within-spec/decodeMessage:flag-test"])
neg("C04", "neg-connect-refuses-password-without-username", "the validation MQTT-3.1.2-22 with the right mask",
    [(CONN, "	if len(src[total:]) < 2 {\n		return 0, fmt.Errorf(\"connect/decodeMessage: Insufficient buffer size. Expecting %d, got %d\", 2, len(src[total:]))\n	}\n", "	if m.connectFlags&0xc0 == 0x40 {\n		return total, fmt.Errorf(\"connect/decodeMessage: password flag without user name flag\")\n	}\n\n	if len(src[total:]) < 2 {\n		return 0, fmt.Errorf(\"connect/decodeMessage: Insufficient buffer size. Expecting %d, got %d\", 2, len(src[total:]))\n	}\n")])
pos("C19", "accept-clears-deadline-after-start", "the accept function clears the read deadline after the service was started",
    [(SRV, "	if err := svc.start(); err != nil {\n		svc.stop()\n		return nil, err\n	}\n", "	if err := svc.start(); err != nil {\n		svc.stop()\n		return nil, err\n	}\n	conn.SetReadDeadline(time.Time{})\n")],
    ["C19/P5-order/(*service.Server).handleConnection:read-deadline-not-moved-after-start"])
pos("C11", "connect-message-from-pool", "the CONNECT is decoded into a recycled message",
    [(MISC, "	msg := message.NewConnectMessage()\n\n	_, err = msg.Decode(buf)\n	return msg, err", "	msg := connectPool.Get().(*message.ConnectMessage)\n\n	_, err = msg.Decode(buf)\n	return msg, err"),
     (MISC, "func getConnectMessage(conn io.Closer)", "var connectPool = sync.Pool{New: func() interface{} { return message.NewConnectMessage() }}\n\nfunc getConnectMessage(conn io.Closer)"),
     (MISC, "	\"net\"\n", "	\"net\"\n	\"sync\"\n")],
    ["C11/P9-who-may/service.getConnectMessage:CONNECT-decoded-into-a-fresh-message"])
WILL_BLOCK = "	// Publish will message if WillFlag is set. Server side only.\n	if !svc.client && svc.sess.Cmsg.WillFlag() {\n		log.Warningf(\"(%s) Connection unexpectedly closed, sending will message\", svc.cid())\n		svc.onPublish(svc.sess.Will)\n	}\n\n"
pos("C18", "will-before-the-join", "teardown hands the will on while the connection's goroutines still run",
    [(SVC, WILL_BLOCK, ""),
     (SVC, "	// Wait for all the goroutines to stop.\n	svc.wgStopped.Wait()\n", WILL_BLOCK + "	// Wait for all the goroutines to stop.\n	svc.wgStopped.Wait()\n")],
    ["C18/G3-goroutine-confinement/service.service.subs:confined"])
pos("C18", "clone-decodes-original-buffer", "Clone decodes the original's encoded image instead of a fresh copy",
    [(PUB, "	l := m.Len()\n	buf := make([]byte, l)\n	if _, err := m.Encode(buf); err != nil {\n		return nil, err\n	}\n	cm := NewPublishMessage()\n", "	cm := NewPublishMessage()\n	if !m.dirty && len(m.dbuf) > 0 {\n		if _, err := cm.Decode(m.dbuf); err != nil {\n			return nil, err\n		}\n		return cm, nil\n	}\n	l := m.Len()\n	buf := make([]byte, l)\n	if _, err := m.Encode(buf); err != nil {\n		return nil, err\n	}\n")],
    ["C18/G7-clone-before-mutate/PublishMessage.Clone:shares-nothing-with-the-original"])
pos("C20", "client-publishes-own-will", "the will step of teardown no longer asks for the broker role",
    [(SVC, "	if !svc.client && svc.sess.Cmsg.WillFlag() {", "	if svc.sess != nil && svc.sess.Cmsg.WillFlag() {")],
    ["C20/P8-guard-contract/teardown:will-iff-flag:only-if(field:service.service.client)"])
pos("C05", "unsubscribe-under-read-lock", "Unsubscribe rewrites the shared tree under the read lock",
    [(MT, "func (mt *MemTopics) Unsubscribe(topic []byte, sub interface{}) error {\n	mt.smu.Lock()\n	defer mt.smu.Unlock()", "func (mt *MemTopics) Unsubscribe(topic []byte, sub interface{}) error {\n	mt.smu.RLock()\n	defer mt.smu.RUnlock()")],
    ["C05/G1-guarded-by/MemTopics.Unsubscribe:sremove-under-MemTopics.smu"])
pos("C02", "wrap-path-writes-whole-scratch", "the wrap path of the packet writer writes the whole scratch buffer instead of the bytes encoded",
    [(SR, "		m, err = svc.out.Write(svc.outtmp[0:n])", "		m, err = svc.out.Write(svc.outtmp[0:])")],
    ["C02/L7-critical-span/writeMessage:wrap-path-writes-what-was-encoded"])
pos("C08", "allretained-skips-own-message", "the '#' walk collects the children's messages but not the node's own",
    [(MT, "	if rn.msg != nil {\n		*msgs = append(*msgs, rn.msg)\n	}\n\n	for _, n := range rn.rnodes {\n		n.allRetained(msgs)\n	}", "	for _, n := range rn.rnodes {\n		if n.msg != nil {\n			*msgs = append(*msgs, n.msg)\n		}\n\n		n.allRetained(msgs)\n	}")],
    ["C08/P4-loop-contract/allRetained:collects-own-message"])


# ---------------------------------------------------------------- rules of seeded round 6
WFWS_LOOP = "		for cpos = bf.cseq.get(); wrap > cpos; cpos = bf.cseq.get() {"
for prop in ("C14", "C15"):
    pos(prop, "space-wait-at-exact-boundary", "the producer keeps waiting when the consumer has freed exactly the room it needs",
        [(BUF, WFWS_LOOP, "		for cpos = bf.cseq.get(); wrap >= cpos; cpos = bf.cseq.get() {")],
        [prop + "/B11-ring-space-accounting/waitForWriteSpace:wait(pcond)#1:waits-only-when-it-must"])
pos("C15", "readwait-waits-with-enough-data", "ReadWait keeps waiting when exactly the bytes asked for are there",
    [(BUF, "	for ppos = bf.pseq.get(); next > ppos; ppos = bf.pseq.get() {", "	for ppos = bf.pseq.get(); next >= ppos; ppos = bf.pseq.get() {")],
    ["C15/B11-ring-space-accounting/ReadWait:wait(ccond)#1:waits-only-when-it-must"])
pos("C16", "tls-listener-recorded-in-plain-field", "ListenAndServeTLS records its listener in the field of the plain listener",
    [(SRV, "	svr.lntls, err = tls.Listen(u.Scheme, u.Host, cfg)\n	if err != nil {\n		return err\n	}\n	defer svr.lntls.Close()", "	svr.ln, err = tls.Listen(u.Scheme, u.Host, cfg)\n	if err != nil {\n		return err\n	}\n	svr.lntls = svr.ln\n	defer svr.lntls.Close()")],
    ["C16/P9-who-may/Server.ln:one-listener-per-field"])
pos("C12", "suback-mismatch-reports-and-falls-through", "the count-mismatch exit of the SUBACK closure reports and then falls through to the normal completion",
    [(SVC, "				return onComplete(msg, ack, fmt.Errorf(\"Incorrect number of return codes received. Expecting %d, got %d\", len(topics), len(retcodes)))\n			}\n			return nil\n		}", "				onComplete(msg, ack, fmt.Errorf(\"Incorrect number of return codes received. Expecting %d, got %d\", len(topics), len(retcodes)))\n			}\n			retcodes = retcodes[:0]\n			topics = topics[:0]\n		}")],
    ["C12/P2-case-contract/client-subscribe:completion-at-most-once"])
for prop in ("C20", "C01"):
    pos(prop, "retain-error-ends-delivery", "a failing retained-store update ends onPublish before the subscribers are looked up",
        [(PROC, "		if err := p.topicsMgr.Retain(msg); err != nil {\n			log.Warningf(\"(%s) Un-/Retaining of message failed: %v\", p.cid(), err)\n		}", "		if err := p.topicsMgr.Retain(msg); err != nil {\n			log.Warningf(\"(%s) Un-/Retaining of message failed: %v\", p.cid(), err)\n			return err\n		}")],
        [prop + "/P2-case-contract/onPublish:fan-out:lookup-on-every-path"])
pos("C07", "suback-len-header-length-through-helper", "Len takes the header length in a helper before it sets the remaining length",
    [(SA, "	ml := m.msglen()\n\n	if err := m.SetRemainingLength(int32(ml)); err != nil {\n		return 0\n	}\n\n	return m.header.msglen() + ml\n}\n\n// Decode decodes the message.", "	hl, ml := m.sizes()\n\n	if err := m.SetRemainingLength(int32(ml)); err != nil {\n		return 0\n	}\n\n	return hl + ml\n}\n\nfunc (m *SubackMessage) sizes() (int, int) {\n	return m.header.msglen(), m.msglen()\n}\n\n// Decode decodes the message.")],
    ["C07/T3-dirty-discipline/(*message.SubackMessage).Len:header-length-after-remaining-length"])


# ---------------------------------------------------------------- rules of seeded round 7
CA = "message/connack.go"
pos("C03", "connack-flags-byte-conditional", "the fix of f715f9d undone: the acknowledge-flags byte is written only when session present is set",
    [(CA, "	if m.sessionPresent {\n		dst[total] = 1\n	} else {\n		dst[total] = 0\n	}\n	total++", "	if m.sessionPresent {\n		dst[total] = 1\n	}\n	total++")],
    ["C03/B14-encoder-writes-what-it-counts/(*message.ConnackMessage).Encode:advance#1(+1):bytes-written-on-every-path"])
neg("C03", "neg-connack-flags-byte-through-local", "the flags byte computed in a local and stored once",
    [(CA, "	if m.sessionPresent {\n		dst[total] = 1\n	} else {\n		dst[total] = 0\n	}\n	total++", "	var ackFlags byte\n	if m.sessionPresent {\n		ackFlags = 1\n	}\n	dst[total] = ackFlags\n	total++")])
for prop in ("C15", "C16", "C05"):
    pos(prop, "oversize-write-waits", "the fix of ad3c910 undone: a reservation larger than the ring waits",
        [(BUF, "	if int64(n) > bf.size {\n		return 0, 0, bufio.ErrBufferFull\n	}\n\n	// The current producer position", "	// The current producer position")],
        [prop + "/B11-ring-space-accounting/waitForWriteSpace:wait(pcond)#1:waits-only-for-what-fits"])
for prop in ("C15", "C16", "C19"):
    pos(prop, "readwait-accepts-up-to-ring-size", "the fix of 3f9cf3b undone: ReadWait accepts a count the pump's block leaves no room for",
        [(BUF, "	if int64(n) > bf.size-defaultReadBlockSize {\n		return nil, bufio.ErrBufferFull\n	}", "	if int64(n) > bf.size {\n		return nil, bufio.ErrBufferFull\n	}")],
        [prop + "/B11-ring-space-accounting/ReadWait:wait(ccond)#1:waits-only-for-what-can-arrive"])
neg("C15", "neg-readwait-limit-in-local", "the limit of ReadWait computed in a local first",
    [(BUF, "	if int64(n) > bf.size-defaultReadBlockSize {\n		return nil, bufio.ErrBufferFull\n	}", "	limit := bf.size - defaultReadBlockSize\n	if int64(n) > limit {\n		return nil, bufio.ErrBufferFull\n	}")])
for prop in ("C15", "C16"):
    pos(prop, "smallest-ring-is-one-block", "the minimum ring size is one read block",
        [(BUF, "	if size < 2*defaultReadBlockSize {\n		size = 2 * defaultReadBlockSize\n	}", "	if size < defaultReadBlockSize {\n		size = defaultReadBlockSize\n	}")],
        [prop + "/B10-ring-memory-safety/newBuffer:smallest-ring-holds-a-packet-beside-a-read-block"])
    pos(prop, "cond-over-rlocker", "the condition variables are created over the read side of an RWMutex",
        [(BUF, "		pcond: sync.NewCond(new(sync.Mutex)),\n		ccond: sync.NewCond(new(sync.Mutex)),", "		pcond: sync.NewCond(new(sync.RWMutex).RLocker()),\n		ccond: sync.NewCond(new(sync.RWMutex).RLocker()),")],
        [prop + "/L2-wait-shape/service.newBuffer:NewCond#1:lock-is-exclusive", prop + "/L2-wait-shape/service.newBuffer:NewCond#2:lock-is-exclusive"])
pos("C05", "default-ring-128k", "the default ring is smaller than the largest will",
    [(BUF, "	defaultBufferSize     = 1024 * 256", "	defaultBufferSize     = 1024 * 128")],
    ["C05/T14-default-ring-size/newBuffer:default-size-holds-the-largest-will"])
for prop in ("C03",):
    pos(prop, "lp-string-bound-maxint16", "length-prefixed fields are limited to 32767 bytes",
        [(MSG, "	maxLPString          uint16 = 65535", "	maxLPString          uint16 = 32767")],
        [prop + "/B13-length-prefix-accepts-every-length/writeLPBytes:return#1:refuses-nothing-the-prefix-can-hold"])
pos("C04", "valid-topic-refuses-dollar", "ValidTopic refuses names that start with '$'",
    [(MSG, "	return len(topic) > 0 && bytes.IndexByte(topic, '#') == -1 && bytes.IndexByte(topic, '+') == -1", "	return len(topic) > 0 && topic[0] != '$' && bytes.IndexByte(topic, '#') == -1 && bytes.IndexByte(topic, '+') == -1")],
    ["C04/T13-topic-name-predicate/ValidTopic:tests-only-emptiness-and-wildcards"])
neg("C04", "neg-valid-topic-as-loop", "ValidTopic written as a loop over the bytes",
    [(MSG, "	return len(topic) > 0 && bytes.IndexByte(topic, '#') == -1 && bytes.IndexByte(topic, '+') == -1", "	if len(topic) == 0 {\n		return false\n	}\n	for _, b := range topic {\n		if b == '#' || b == '+' {\n			return false\n		}\n	}\n	return !bytes.ContainsAny(topic, \"#+\")")])
for prop in ("C02", "C04"):
    pos(prop, "dup-refused-with-wrong-mask", "a DUP check with the QoS mask 0x2 refuses retransmitted QoS 2 publishes",
        [(HDR, "	total++\n\n	remlen, m := binary.Uvarint(src[total:])", "	if h.Type() == PUBLISH && h.Flags()&0x8 != 0 && h.Flags()&0x2 == 0 {\n		return total, fmt.Errorf(\"header/Decode: DUP flag set for QoS 0 PUBLISH message\")\n	}\n\n	total++\n\n	remlen, m := binary.Uvarint(src[total:])")],
        [prop + "/T15-header-byte-refusals/header.decode:first-byte-test@5:refuses-only-malformed-bytes"])
neg("C04", "neg-dup-refused-at-qos0", "a DUP check with the right mask refuses only DUP at QoS 0 [MQTT-3.3.1-2]",
    [(HDR, "	total++\n\n	remlen, m := binary.Uvarint(src[total:])", "	if h.Type() == PUBLISH && h.Flags()&0x8 != 0 && h.Flags()&0x6 == 0 {\n		return total, fmt.Errorf(\"header/Decode: DUP flag set for QoS 0 PUBLISH message\")\n	}\n\n	total++\n\n	remlen, m := binary.Uvarint(src[total:])")])
pos("C10", "sessions-manager-for-default-provider", "the session manager is created for the default provider, not the configured one",
    [(SRV, "		svr.sessMgr, err = sessions.NewManager(svr.SessionsProvider)", "		svr.sessMgr, err = sessions.NewManager(\"mem\")")],
    ["C10/T16-provider-wiring/(*service.Server).checkConfiguration:sessions.NewManager:configured-provider"])
neg("C10", "neg-sessions-provider-through-local", "the provider name defaulted in a local",
    [(SRV, "		if svr.SessionsProvider == \"\" {\n			svr.SessionsProvider = \"mem\"\n		}\n		svr.sessMgr, err = sessions.NewManager(svr.SessionsProvider)", "		spName := svr.SessionsProvider\n		if spName == \"\" {\n			spName = \"mem\"\n		}\n		svr.sessMgr, err = sessions.NewManager(spName)")])
for prop in ("C07", "C10"):
    pos(prop, "topics-memoised-not-reset-by-remove", "Session.Topics keeps its result; RemoveTopic does not reset it",
        [(SESS, "	// Initialized?\n	initted bool", "	tlist []string\n	qlist []byte\n\n	// Initialized?\n	initted bool"),
         (SESS, "	s.topics[topic] = qos\n\n	return nil\n}", "	s.topics[topic] = qos\n	s.tlist, s.qlist = nil, nil\n\n	return nil\n}"),
         (SESS, "	var (\n		topics []string\n		qoss   []byte\n	)", "	if s.tlist != nil {\n		return s.tlist, s.qlist, nil\n	}\n\n	var (\n		topics []string\n		qoss   []byte\n	)"),
         (SESS, "	return topics, qoss, nil\n}", "	s.tlist, s.qlist = topics, qoss\n\n	return topics, qoss, nil\n}")],
        [prop + "/T17-memoised-views/Session.tlist:reset-by-every-update-of(qlist,topics)"])
for prop in ("C13", "C14"):
    pass
pos("C13", "ackdone-starts-from-package-slice", "every queue's result list starts as the same package-level slice",
    [(AQ, "		ackdone: make([]AckMsg, 0),", "		ackdone: noneAcked,"),
     (AQ, "	errAckMessage  error = errors.New(\"Invalid message for acking\")\n", "	errAckMessage  error = errors.New(\"Invalid message for acking\")\n\n	noneAcked = make([]AckMsg, 0, defaultQueueSize)\n")],
    ["C13/G9-no-shared-backing/library-structs:slice-and-map-fields-own-their-backing"])
pos("C12", "scratch-allocated-once", "the writer's scratch buffer is allocated only when it is nil",
    [(SR, "		if len(svc.outtmp) < l {", "		if svc.outtmp == nil {")],
    ["C12/B10-ring-memory-safety/writeMessage:scratch-holds-the-message"])
neg("C12", "neg-scratch-grown-by-cap", "the scratch is re-sliced when its capacity suffices",
    [(SR, "		if len(svc.outtmp) < l {\n			svc.outtmp = make([]byte, l)\n		}", "		if len(svc.outtmp) < l {\n			svc.outtmp = make([]byte, l, 2*l)\n		}")])
for prop in ("C09", "C16"):
    pos(prop, "stores-closed-before-connections", "Server.Close closes the stores before it stops the connections",
        [(SRV, "	for _, svc := range svcs {\n		log.Tracef(\"Stopping service: %d\", svc.id)\n		svc.stop()\n	}\n\n	if svr.sessMgr != nil {\n		svr.sessMgr.Close()\n	}\n\n	if svr.topicsMgr != nil {\n		svr.topicsMgr.Close()\n	}\n", "	if svr.sessMgr != nil {\n		svr.sessMgr.Close()\n	}\n\n	if svr.topicsMgr != nil {\n		svr.topicsMgr.Close()\n	}\n\n	for _, svc := range svcs {\n		log.Tracef(\"Stopping service: %d\", svc.id)\n		svc.stop()\n	}\n")],
        [prop + "/P5-order/Server.Close:stores-closed-after-connections-stopped"])
pos("C11", "session-init-passes-on-settopic-error", "Session.Init returns the error of the will's SetTopic",
    [(SESS, "		s.Will.SetTopic(s.Cmsg.WillTopic())\n		s.Will.SetPayload(s.Cmsg.WillMessage())\n		s.Will.SetRetain(s.Cmsg.WillRetain())\n	}\n\n	s.topics = make(map[string]byte, 1)", "		if err := s.Will.SetTopic(s.Cmsg.WillTopic()); err != nil {\n			return err\n		}\n		s.Will.SetPayload(s.Cmsg.WillMessage())\n		s.Will.SetRetain(s.Cmsg.WillRetain())\n	}\n\n	s.topics = make(map[string]byte, 1)")],
    ["C11/P11-effect-dominance/Session.Init:fails-only-on-its-own-state"])
pos("C17", "ping-written-straight-to-the-socket", "ping writes its PINGREQ with the handshake's socket writer",
    [(SVC, "	msg := message.NewPingreqMessage()\n\n	_, err := svc.writeMessage(msg)\n	if err != nil {", "	msg := message.NewPingreqMessage()\n\n	if err := writeMessage(svc.conn, msg); err != nil {")],
    ["C17/P9-who-may/socket-writer:called-only-by-the-handshake"])
for prop in ("C19", "C16"):
    pos(prop, "closed-partial-reports-insufficient-data", "ReadWait on a closed ring with a partial packet reports 'insufficient data'",
        [(BUF, "	for ppos = bf.pseq.get(); next > ppos; ppos = bf.pseq.get() {\n		if bf.isDone() {\n			bf.ccond.L.Unlock()\n			return nil, io.EOF", "	for ppos = bf.pseq.get(); next > ppos; ppos = bf.pseq.get() {\n		if bf.isDone() {\n			bf.ccond.L.Unlock()\n			if ppos > cpos {\n				return nil, ErrBufferInsufficientData\n			}\n			return nil, io.EOF")],
        [prop + "/L2-wait-shape/(*service.buffer).ReadWait:wait(ccond):closed-flag-exit-reports-end-of-stream"])
pos("C20", "connack-code-5-invalid", "ConnackCode.Valid excludes 'not authorized'",
    [("message/connackcode.go", "	return cc <= 5", "	return cc < ErrNotAuthorized")],
    ["C20/T1-type-tables/ConnackCode.Valid:range"])
for prop in ("C01", "C03"):
    pos(prop, "unsubscribe-loop-ends-at-remlen", "the UNSUBSCRIBE decode loop compares its cursor with the remaining length alone",
        [("message/unsubscribe.go", "	remlen := int(m.remlen) - (total - hn)\n	for remlen > 0 {", "	end := int(m.remlen)\n	for total < end {"),
         ("message/unsubscribe.go", "		m.topics = append(m.topics, t)\n		remlen = remlen - n\n	}", "		m.topics = append(m.topics, t)\n	}")],
        [prop + "/B3-cursor-conservation/(*message.UnsubscribeMessage).Decode:loop:runs-to-the-end-of-the-packet"])
neg("C03", "neg-unsubscribe-loop-ends-at-packet-end", "the UNSUBSCRIBE decode loop runs to fixed header + remaining length",
    [("message/unsubscribe.go", "	remlen := int(m.remlen) - (total - hn)\n	for remlen > 0 {", "	end := hn + int(m.remlen)\n	for total < end {"),
     ("message/unsubscribe.go", "		m.topics = append(m.topics, t)\n		remlen = remlen - n\n	}", "		m.topics = append(m.topics, t)\n	}")])
pos("C13", "grow-doubles-size-before-copy", "grow doubles size and mask before it copies the old ring",
    [(AQ, "	newsize := aq.size << 1\n	newmask := newsize - 1\n	newring := make([]AckMsg, newsize)", "	aq.size <<= 1\n	aq.mask = aq.size - 1\n	newring := make([]AckMsg, aq.size)"),
     (AQ, "	aq.size = newsize\n	aq.mask = newmask\n	aq.ring = newring", "	aq.ring = newring")],
    ["C13/T5-co-update/grow:unrolls-oldest-first"])
pos("C10", "clean-connect-keeps-stored-session", "getSession looks the session up before it asks for CleanSession",
    [(SRV, "	if !req.CleanSession() {\n		if svc.sess, err = svr.sessMgr.Get(cid); err == nil {\n			resp.SetSessionPresent(true)\n\n			if err := svc.sess.Update(req); err != nil {\n				return err\n			}\n		}\n	}", "	if svc.sess, err = svr.sessMgr.Get(cid); err == nil && !req.CleanSession() {\n		resp.SetSessionPresent(true)\n\n		if err := svc.sess.Update(req); err != nil {\n			return err\n		}\n	}")],
    ["C10/P8-guard-contract/getSession:clean(CleanSession=1):never(keeps-what-Manager.Get-returned)"])
pos("C05", "session-del-under-read-lock", "MemProvider.Del deletes under the read lock",
    [("sessions/memprovider.go", "func (mp *MemProvider) Del(id string) {\n	mp.mu.Lock()\n	defer mp.mu.Unlock()", "func (mp *MemProvider) Del(id string) {\n	mp.mu.RLock()\n	defer mp.mu.RUnlock()")],
    ["C05/G1-guarded-by/MemProvider.Del:map-update#2-under-exclusive-lock"])
pos("C20", "client-on-shared-provider", "the client takes its callback tree from the default provider",
    [(CLI, "	p := topics.NewMemProvider()\n	topics.Register(cln.svc.sess.ID(), p)\n\n	cln.svc.topicsMgr, err = topics.NewManager(cln.svc.sess.ID())", "	cln.svc.topicsMgr, err = topics.NewManager(DefaultTopicsProvider)", 1, 2)],
    ["C20/T16-provider-wiring/(*service.Client).Connect:topics.NewManager:own-fresh-provider"])

# ---------------------------------------------------------------- round 8
pos("C16", "publish-waits-on-never-created-channel", "the delivery path blocks on svc.done, a channel no function creates",
    [(SVC, "func (svc *service) publish(msg *message.PublishMessage, onComplete OnCompleteFunc) error {\n", "func (svc *service) publish(msg *message.PublishMessage, onComplete OnCompleteFunc) error {\n\t<-svc.done\n")],
    ["C16/L9-no-wait-on-a-channel-that-is-never-created/(*service.service).publish:blocking-channel-op#1"])
pos("C13", "ack-slot-used-after-relock", "Ack looks the slot up, releases the queue lock, takes it again and stores with the remembered slot",
    [(AQ, "\t\ti, ok := aq.emap[msg.PacketID()]\n\t\tif ok {", "\t\ti, ok := aq.emap[msg.PacketID()]\n\t\taq.mu.Unlock()\n\t\taq.mu.Lock()\n\t\tif ok {")],
    ["C13/L8-no-stale-position-across-sections/(*sessions.Ackqueue).Ack:position-from(Ackqueue.emap)-addresses(Ackqueue.ring)#1"])
pos("C18", "ack-slot-used-after-relock", "the same edit, seen by the sharing discipline",
    [(AQ, "\t\ti, ok := aq.emap[msg.PacketID()]\n\t\tif ok {", "\t\ti, ok := aq.emap[msg.PacketID()]\n\t\taq.mu.Unlock()\n\t\taq.mu.Lock()\n\t\tif ok {")],
    ["C18/L8-no-stale-position-across-sections/(*sessions.Ackqueue).Ack:position-from(Ackqueue.emap)-addresses(Ackqueue.ring)#1"])
pos("C06", "lookup-answers-without-the-walk", "Subscribers returns successfully for one-byte topics without walking the tree",
    [(MT, "\t*subs = (*subs)[0:0]\n\t*qoss = (*qoss)[0:0]\n\n\treturn mt.sroot.smatch(topic, qos, subs, qoss)", "\t*subs = (*subs)[0:0]\n\t*qoss = (*qoss)[0:0]\n\n\tif len(topic) == 1 {\n\t\treturn nil\n\t}\n\n\treturn mt.sroot.smatch(topic, qos, subs, qoss)")],
    ["C06/T18-lookup-from-the-source/MemTopics.Subscribers:answers-from-the-tree"])
pos("C02", "wait-passes-on-the-duplicate-error", "Wait returns what insert says about a duplicate identifier",
    [(AQ, "\t\taq.insert(msg.PacketID(), msg, onComplete)\n\n\tcase *message.SubscribeMessage:", "\t\tif err := aq.insert(msg.PacketID(), msg, onComplete); err != nil {\n\t\t\treturn err\n\t\t}\n\n\tcase *message.SubscribeMessage:")],
    ["C02/T2-terminal-ack-tables/Wait:registers(PublishMessage)"])
pos("C11", "kick-before-authentication", "the accept path ends another connection before the credentials are checked",
    [(SRV, "\t// Authenticate the user, if error, return error and exit\n", "\tsvr.mu.Lock()\n\tfor _, old := range svr.svcs {\n\t\tif old.sess != nil && old.sess.ID() == string(req.ClientID()) {\n\t\t\tgo old.stop()\n\t\t}\n\t}\n\tsvr.mu.Unlock()\n\n\t// Authenticate the user, if error, return error and exit\n")],
    ["C11/P11-effect-dominance/accept:authentication-before-any-effect"])
neg("C11", "nil-check-in-front-of-init", "Session.Init refuses a nil CONNECT with a package-level error (cannot happen on the accept path)",
    [(SESS, "\ts.cbuf = make([]byte, msg.Len())\n\ts.Cmsg = message.NewConnectMessage()\n", "\tif msg == nil {\n\t\treturn errNoConnect\n\t}\n\n\ts.cbuf = make([]byte, msg.Len())\n\ts.Cmsg = message.NewConnectMessage()\n", 1, 2),
     (SESS, "const (\n", "var errNoConnect = fmt.Errorf(\"Session: CONNECT message is nil\")\n\nconst (\n", 1, 1)])


def main():
    os.makedirs(OUT, exist_ok=True)
    for prop, cs in sorted(C.items()):
        path = os.path.join(OUT, prop + ".json")
        if prop in ("C04", "C15") and os.path.exists(path):
            # these two files were written by hand first: keep their controls, add the generated ones
            names = {c["name"] for c in cs}
            cs = [c for c in json.load(open(path)) if c["name"] not in names] + cs
        with open(path, "w") as f:
            json.dump(cs, f, indent=1)
            f.write("\n")
        print(prop, len(cs), "controls")


if __name__ == "__main__":
    main()
