#!/bin/bash
# usage: tpv.sh <patch> <property> [grep-pattern] - like tp.sh but prints the full text of the violations
P=$1; prop=$2; pat=${3:-violated}
T=$(mktemp -d /tmp/trypatch.XXXXXX)
cp -r /repo $T/repo && rm -rf $T/repo/.git
mkdir -p $T/verif
if ! (cd $T/repo && patch -p1 -s --no-backup-if-mismatch < "$P" >/dev/null 2>&1); then echo "PATCH DOES NOT APPLY: $P"; rm -rf $T; exit 3; fi
cp /verif/known-findings.txt $T/verif/ 2>/dev/null
/verif/bin/mqttcheck-dev -property $prop -repo $T/repo -verif $T/verif 2>&1 | grep -A14 "$pat" | cut -c1-400
rm -rf $T
