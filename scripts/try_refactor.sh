#!/bin/bash
# usage: try_refactor.sh <patch.diff>...  - applies each patch to its own scratch copy of /repo (under /tmp, removed
# afterwards), builds it, and runs all 20 quick checks: a behaviour-preserving change must leave every check at exit 0.
BIN=${MQTTCHECK_BIN:-/verif/bin/mqttcheck}
one() {
  P=$1
  T=$(mktemp -d /tmp/tryref.XXXXXX)
  mkdir -p $T/repo $T/verif; (cd /repo && tar --exclude=.git -cf - .) | (cd $T/repo && tar xf -)
  cp /verif/known-findings.txt $T/verif/
  if ! (cd $T/repo && patch -p1 -s --no-backup-if-mismatch < "$P" >/dev/null 2>&1); then echo "$P: PATCH-DOES-NOT-APPLY"; rm -rf $T; return; fi
  if ! (cd $T/repo && GOFLAGS=-mod=mod GOPROXY=off GOSUMDB=off GOTOOLCHAIN=local go build ./... 2>/dev/null); then echo "$P: DOES-NOT-BUILD"; rm -rf $T; return; fi
  bad=""
  for prop in C01 C02 C03 C04 C05 C06 C07 C08 C09 C10 C11 C12 C13 C14 C15 C16 C17 C18 C19 C20; do
    out=$($BIN -property $prop -repo $T/repo -verif $T/verif 2>&1); rc=$?
    if [ $rc -ne 0 ]; then
      bad="$bad
   $prop rc=$rc $(echo "$out" | grep -E '^  violated:|^INCONCLUSIVE' | sed 's/^  violated: //' | head -4 | paste -sd';' | cut -c1-400)"
    fi
  done
  rm -rf $T
  if [ -z "$bad" ]; then echo "$P: silent"; else echo "$P: ALARM$bad"; fi
}
export -f one; export BIN
printf '%s\n' "$@" | xargs -P 5 -I{} bash -c 'one {}'
