#!/bin/bash
# usage: try_refactor.sh <patch.diff>...  - applies each patch to its own scratch copy of /repo (under /tmp, removed
# afterwards), builds it, and runs all 20 quick checks: a behaviour-preserving change must leave every check at exit 0.
BIN=${MQTTCHECK_BIN:-/verif/bin/mqttcheck}
one() {
  P=$1
  T=$(mktemp -d /tmp/tryref.XXXXXX)
  mkdir -p $T/repo $T/verif; (cd /repo && tar --exclude=.git -cf - .) | (cd $T/repo && tar xf -)
  cp /verif/known-findings.txt $T/verif/
  if ! (cd $T/repo && patch -p1 -s --no-backup-if-mismatch < "$P" >/dev/null 2>&1); then echo "$P: PATCH-DOES-NOT-APPLY"; rm -rf $T; return; fi
  if ! (cd $T/repo && GOFLAGS=-mod=mod GOPROXY=off GOSUMDB=off GOTOOLCHAIN=local go build ./... 2>/dev/null); then echo "$P: DOES-NOT-BUILD"; rm -rf $T; return; fi
  out=$($BIN -sweep -repo $T/repo -verif $T/verif 2>&1)
  # one block per property, closed by "=== <id> rc=<n>"
  bad=$(echo "$out" | awk '/^  violated:|^INCONCLUSIVE/ { sub(/^  violated: /, ""); acc = acc (acc == "" ? "" : ";") $0 } /^=== / { split($3, a, "="); if (a[2] != "0") printf "\n   %s %s %s", $2, $3, substr(acc, 1, 400); acc = "" }')
  echo "$out" | grep -q '^=== C20 ' || bad="$bad
   SWEEP-INCOMPLETE $(echo "$out" | tail -2 | paste -sd';' | cut -c1-300)"
  rm -rf $T
  if [ -z "$bad" ]; then echo "$P: silent"; else echo "$P: ALARM$bad"; fi
}
export -f one; export BIN
printf '%s\n' "$@" | xargs -P ${SWEEP_PAR:-5} -I{} bash -c 'one {}'
