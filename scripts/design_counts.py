#!/usr/bin/env python3
# Rewrites the "obligations" column of the per-property table in DESIGN.md (section 4) from evidence/<id>.json.
import json, re
p = '/verif/DESIGN.md'
s = open(p).read()
for n in range(1, 21):
    pid = 'C%02d' % n
    try:
        cov = json.load(open('/verif/evidence/%s.json' % pid))['coverage']
    except Exception as e:
        print(pid, 'no evidence', e); continue
    ob = cov.get('obligations')
    kf = cov.get('known_findings')
    nk = len(kf) if isinstance(kf, list) else (kf or 0)
    if isinstance(ob, list): ob = len(ob)
    cell = '%d' % ob + (' (%d known)' % nk if nk else '')
    m = re.search(r'^\| %s \| (.*?) \| (\d+(?: \(\d+ known\))?) \| ' % pid, s, re.M)
    if not m:
        print(pid, 'row not found'); continue
    s = s[:m.start(2)] + cell + s[m.end(2):]
    print(pid, cell)
open(p, 'w').write(s)
