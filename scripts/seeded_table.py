#!/usr/bin/env python3
"""Writes /verif/seeded/INDEX.md (one row per seeded change: what was changed, which check catches it) and
replaces the block between the SEEDED-TABLE markers of DESIGN.md with it."""
import json, glob, os, re
HERE = os.path.dirname(os.path.abspath(__file__))
V = os.path.join(HERE, "..")
rows = []
for d in sorted(glob.glob(os.path.join(V, "seeded", "C*-*"))):
    mp = os.path.join(d, "meta.json")
    if not os.path.exists(mp):
        continue
    m = json.load(open(mp))
    sid = os.path.basename(d)
    prop = m["property"]
    cb = m.get("caught_by") or {}
    if isinstance(cb, list):  # old format
        cb2 = {}
        for x in cb:
            mm = re.match(r"(C\d\d)\[(.*)\]", x)
            if mm:
                cb2[mm.group(1)] = mm.group(2).split(";")
        cb = cb2
    own = cb.get(prop, [])
    def short(k):
        parts = k.split("/", 2)
        return parts[1].split("-")[0] + " " + parts[2] if len(parts) == 3 else k
    ownk = "; ".join(short(k) for k in own[:2]) or "-"
    others = ", ".join(sorted(p for p in cb if p != prop)) or "-"
    summ = (m.get("summary") or "").replace("|", "/").replace("\n", " ")
    summ = re.sub(r"\s+", " ", summ)
    if len(summ) > 150:
        summ = summ[:147] + "..."
    files = ", ".join(m.get("files") or [])
    rows.append((sid, files, summ, ownk, others))
lines = ["| id | file | change | caught by the property's own check (rule construct) | also flagged by |", "|---|---|---|---|---|"]
for r in rows:
    lines.append("| %s | %s | %s | %s | %s |" % r)
table = "\n".join(lines)
open(os.path.join(V, "seeded", "INDEX.md"), "w").write("# Seeded changes and the checks that catch them\n\n" + table + "\n")
dp = os.path.join(V, "DESIGN.md")
s = open(dp).read()
a, b = "<!-- SEEDED-TABLE:BEGIN -->", "<!-- SEEDED-TABLE:END -->"
if a in s and b in s:
    s = s[:s.index(a) + len(a)] + "\n" + table + "\n" + s[s.index(b):]
    open(dp, "w").write(s)
print(len(rows), "rows; own-property catches:", sum(1 for r in rows if r[3] != "-"))
