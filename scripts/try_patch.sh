#!/bin/bash
# usage: try_patch.sh <patch.diff> <property>...   - applies the patch to a scratch copy of /repo (outside /repo and /verif),
# runs the quick checks of the given properties against it and removes the copy. Prints one line per property.
P=$1; shift
T=$(mktemp -d /tmp/trypatch.XXXXXX)
cp -r /repo $T/repo && rm -rf $T/repo/.git
mkdir -p $T/verif
if ! (cd $T/repo && patch -p1 -s --no-backup-if-mismatch < "$P" >/dev/null 2>&1); then echo "PATCH DOES NOT APPLY: $P"; rm -rf $T; exit 3; fi
cp /verif/known-findings.txt $T/verif/ 2>/dev/null
for prop in "$@"; do
  out=$(${MQTTCHECK_BIN:-/verif/bin/mqttcheck} -property $prop -repo $T/repo -verif $T/verif 2>&1); rc=$?
  nv=$(echo "$out" | grep -c '^VIOLATION')
  echo "$prop rc=$rc violations=$nv"
  echo "$out" | grep -E '^  violated:|^INCONCLUSIVE' | sed 's/^/    /' | cut -c1-220
done
rm -rf $T
