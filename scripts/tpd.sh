#!/bin/bash
# usage: tpd.sh <patch> <property>...  - like tp.sh, with the detail lines of every violated / undecided obligation
P=$1; shift
T=$(mktemp -d /tmp/trypatch.XXXXXX)
cp -r /repo $T/repo && rm -rf $T/repo/.git
mkdir -p $T/verif; cp /verif/known-findings.txt $T/verif/
if ! (cd $T/repo && patch -p1 -s --no-backup-if-mismatch < "$P" >/dev/null 2>&1); then echo "PATCH DOES NOT APPLY: $P"; rm -rf $T; exit 3; fi
for prop in "$@"; do
  ${MQTTCHECK_BIN:-/verif/bin/mqttcheck-dev} -property $prop -repo $T/repo -verif $T/verif 2>&1 | grep -E '^  violated:|^INCONCLUSIVE' -A${TPD_LINES:-4} | cut -c1-${TPD_COLS:-700}
done
rm -rf $T
