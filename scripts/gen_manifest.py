#!/usr/bin/env python3
"""Generates /verif/MANIFEST.json from scripts/manifest_src.json (claimed checks + not_applicable)."""
import json, os, sys
here = os.path.dirname(os.path.abspath(__file__))
src = json.load(open(os.path.join(here, 'manifest_src.json')))
props = [json.loads(l) for l in open(os.path.join(here, '..', 'properties.jsonl'))]
ids = [p['id'] for p in props]
checks = []
na = []
for pid in ids:
    c = src['claims'].get(pid)
    if c is None:
        na.append({"property_id": pid, "reason": src['not_applicable'].get(pid, "no sound structural rule built yet for this property (static analysis family); see DESIGN.md section 4")})
        continue
    checks.append({
        "property_id": pid,
        "quick_cmd": "bin/mqttcheck -property %s -tier quick" % pid,
        "thorough_cmd": "bin/mqttcheck -property %s -tier thorough" % pid,
        "evidence_file": "/verif/evidence/%s.json" % pid,
        "replay_cmd_template": "bin/mqttcheck -replay {path}",
        "engine": "mqttcheck",
        "level_claimed": {"category": "other", "text": c['text'], "design_ref": c.get('design_ref', 'DESIGN.md section 4, ' + pid)},
        "level_note": c['note'],
        "technique": c['technique'],
    })
m = {
    "version": 1,
    "setup_cmd": "cd /verif && GOFLAGS=-mod=vendor GOPROXY=off GOSUMDB=off GOTOOLCHAIN=local GOWORK=off go build -o bin/mqttcheck ./cmd/mqttcheck",
    "hooks": {
        "guard": "verif",
        "enable": "none needed: the checks read the source; the thorough tier additionally analyses the tree with -tags verif so that guarded code cannot hide from the checker",
        "baseline_off_cmd": "/verif/scripts/baseline.sh /repo",
        "source_commits": [],
        "add_only": True,
    },
    "engines": [{
        "name": "mqttcheck",
        "path": "/verif/cmd/mqttcheck",
        "serves_properties": [c['property_id'] for c in checks],
        "kind_free_text": "repository-specific static analyser over go/packages + go/types + go/ssa + VTA call graph: lockset/condition-variable discipline, mod/ref summaries, path and dominance rules, linear-fact bounds, table agreement",
    }],
    "checks": checks,
    "not_applicable": na,
    "notes": src.get('notes', ''),
}
json.dump(m, open(os.path.join(here, '..', 'MANIFEST.json'), 'w'), indent=1)
print("MANIFEST.json: %d checks, %d not_applicable" % (len(checks), len(na)))
