#!/usr/bin/env python3
import json, jsonschema, glob, sys
jsonschema.validate(json.load(open('/verif/MANIFEST.json')), json.load(open('/root/.vp/MANIFEST.schema.json')))
es = json.load(open('/root/.vp/EVIDENCE.schema.json'))
n=0
for f in sorted(glob.glob('/verif/evidence/C*.json')):
    jsonschema.validate(json.load(open(f)), es); n+=1
print("MANIFEST ok; %d evidence files ok" % n)
