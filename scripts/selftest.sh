#!/bin/bash
# usage: selftest.sh [controls]   - development aid: builds the checker into bin/mqttcheck-dev, runs the 20 quick checks on
# /repo (every one must exit 0) and, with "controls", every property's controls incl. the shared negatives.
cd /verif || exit 2
GOFLAGS=-mod=vendor GOPROXY=off GOSUMDB=off GOTOOLCHAIN=local GOWORK=off go build -o bin/mqttcheck-dev ./cmd/mqttcheck || exit 2
T=$(mktemp -d /tmp/selftest.XXXXXX); cp known-findings.txt $T/
fail=0
for p in $(seq -w 1 20); do
  out=$(bin/mqttcheck-dev -property C$p -verif $T 2>&1); rc=$?
  if [ $rc -ne 0 ]; then fail=1; echo "C$p rc=$rc"; echo "$out" | grep -E "violated:|^INCONC|^VIOLATION" | head -5; fi
done
rm -rf $T
[ $fail -eq 0 ] && echo "quick: all 20 exit 0"
if [ "$1" = "controls" ]; then
  for p in $(seq -w 1 20); do
    r=$(bin/mqttcheck-dev -property C$p -controls 2>&1 | grep -E "control " | grep -v "ok  ")
    [ -n "$r" ] && { fail=1; echo "== C$p"; echo "$r" | cut -c1-300; }
  done
  [ $fail -eq 0 ] && echo "controls: all ok"
fi
exit $fail
