#!/bin/bash
# Runs the repository's pinned test suite (guard OFF, i.e. no build tags) in DIR (default /repo)
# and checks that all 131 stable tests of /root/.vp/BASELINE.json pass. The suite contains an
# unpinned, already failing service test that occasionally kills the test binary before the pinned
# TestServiceConnectAuthError has run (fixed port 1883); such a run is repeated, up to 3 times.
DIR=${1:-/repo}
export GOFLAGS=-mod=mod GOPROXY=off GOSUMDB=off GOTOOLCHAIN=local
unset GOWORK
cd "$DIR" || exit 2
for attempt in 1 2 3; do
OUT=$(mktemp)
go test -mod=mod -json -vet=off -count=1 -timeout 4m ./... > "$OUT" 2>/dev/null
python3 - "$OUT" <<'PY'
import json,sys
base=json.load(open('/root/.vp/BASELINE.json'))['stable_pass']
res={}
for l in open(sys.argv[1]):
    try: e=json.loads(l)
    except: continue
    if e.get('Test') and e.get('Action') in('pass','fail','skip'):
        res[e['Package']+'::'+e['Test']]=e['Action']
bad=[t for t in base if res.get(t)!='pass']
print("baseline: %d/%d stable tests pass"%(len(base)-len(bad),len(base)))
for t in bad: print("  NOT PASSING:",t,res.get(t))
# only the known flaky no-result case is worth a retry
sys.exit(0 if not bad else (3 if all(res.get(t) is None for t in bad) else 1))
PY
rc=$?
rm -f "$OUT"
[ $rc -eq 3 ] || exit $rc
done
exit 1
