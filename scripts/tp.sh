#!/bin/bash
# usage: tp.sh <patch> <property>...  - try_patch.sh with the development binary (bin/mqttcheck-dev)
export MQTTCHECK_BIN=/verif/bin/mqttcheck-dev
exec /verif/scripts/try_patch.sh "$@"
