#!/bin/bash
# stops running sweeps (try_refactor.sh / recheck_seeded.sh and their checker processes) and removes their scratch copies
for pat in 'try_refactor.sh' 'recheck_seeded.sh' 'xargs -P 5' 'bash -c one' 'mqttcheck-sweep'; do
  for pid in $(pgrep -f "$pat"); do
    [ "$pid" != "$$" ] && kill "$pid" 2>/dev/null
  done
done
sleep 1
for pid in $(pgrep -f 'mqttcheck-sweep'); do kill -9 "$pid" 2>/dev/null; done
rm -rf /tmp/tryref.* /tmp/recheck.*
echo stopped
