#!/bin/bash
# usage: confirm_round.sh <src-dir> <tag> [par]  - confirms every <src-dir>/<Cnn>/<mK>/ that has patch.diff, demo_test.go and meta.json
# and is not yet under /verif/seeded/<Cnn>-<tag><mK>/ ; PAR confirmations side by side (each in its own scratch worktree and network namespace).
SRC=$1; TAG=$2; PAR=${3:-6}
export SEED_SRC=$SRC SEED_TAG=$TAG
for d in $SRC/C*/m*; do
  [ -f $d/patch.diff ] && [ -f $d/demo_test.go ] && [ -f $d/meta.json ] || continue
  P=$(basename $(dirname $d)); M=$(basename $d)
  [ -d /verif/seeded/$P-$TAG$M ] && continue
  echo "$P $M"
done | xargs -P $PAR -L1 /verif/scripts/confirm_seeded.sh
