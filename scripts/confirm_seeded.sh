#!/bin/bash
# usage: [SEED_SRC=/tmp/mut2/out SEED_TAG=r2] confirm_seeded.sh <Cnn> <mK> [patchfile]   - confirms one sub-agent mutant against the current /repo HEAD and
# records it under /verif/seeded/<Cnn>-<mK>/ (patch.diff, demo, meta.json). Scratch worktree under /tmp, removed afterwards.
P=$1; M=$2
SRC=${SEED_SRC:-/tmp/mut/out}/$P/$M
PATCH=${3:-$SRC/patch.diff}
DST=/verif/seeded/$P-${SEED_TAG}$M
BIN=${MQTTCHECK_BIN:-/verif/bin/mqttcheck}
export GOFLAGS=-mod=mod GOPROXY=off GOSUMDB=off GOTOOLCHAIN=local; unset GOWORK
W=$(mktemp -d /tmp/seedconf.XXXXXX)/wt
git -C /repo worktree add -q --detach $W HEAD || exit 2
cleanup() { git -C /repo worktree remove --force $W 2>/dev/null; rm -rf $(dirname $W); }
trap cleanup EXIT
cd $W
if ! git apply "$PATCH" 2>/dev/null; then
  if ! patch -p1 -s --no-backup-if-mismatch -F3 < "$PATCH" >/dev/null 2>&1; then
    echo "$P-$M: PATCH-DOES-NOT-APPLY"; git checkout -q -- .; exit 3
  fi
fi
find . -name '*.rej' -o -name '*.orig' | xargs -r rm -f
if ! go build ./... 2>/tmp/seedbuild.$$; then echo "$P-$M: DOES-NOT-BUILD $(head -3 /tmp/seedbuild.$$ | tr '\n' ' ')"; rm -f /tmp/seedbuild.$$; exit 4; fi
rm -f /tmp/seedbuild.$$
git diff > /tmp/seedpatch.$$
# baseline (serialised: the suite binds a fixed port)
# each run in a network namespace of its own where that is possible (then many confirmations run side by side)
if unshare -n true 2>/dev/null; then
  NS() { unshare -n bash -c 'ip link set lo up 2>/dev/null; exec "$@"' ns "$@"; }
else
  mkdir -p /tmp/mut3
  NS() { flock /tmp/mut3/baseline.lock "$@"; }
fi
base=$(NS /verif/scripts/baseline.sh $W 2>&1 | grep "^baseline:" | tail -1)
# demo
place=$(head -1 $SRC/demo_test.go | sed -n 's#^// place at: *##p' | tr -d ' \r')
[ -z "$place" ] && place=$(python3 -c "import json;print(json.load(open('$SRC/meta.json')).get('demo_place',''))")
if [ -z "$place" ]; then echo "$P-$M: NO-DEMO-PLACE"; exit 5; fi
cp $SRC/demo_test.go $W/$place
pkg=./$(dirname $place)
tests=$(grep -oE '^func (Test[A-Za-z0-9_]+)' $SRC/demo_test.go | awk '{print $2}' | paste -sd'|')
race=$(python3 -c "import json;m=json.load(open('$SRC/meta.json'));r=m.get('run');print('-race' if (r is None and '-race' in json.dumps(m)) or (r and '-race' in r) else '')")
with=$(NS timeout 300 go test $race -vet=off -count=1 -timeout 120s -run "^($tests)\$" $pkg 2>&1 | grep -E '^(ok|FAIL|---|panic|WARNING: DATA RACE)' | head -5 | tr '\n' ' ')
git apply -R /tmp/seedpatch.$$ 2>/dev/null || { git checkout -q -- . ; }
without=$(NS timeout 300 go test $race -vet=off -count=1 -timeout 120s -run "^($tests)\$" $pkg 2>&1 | grep -E '^(ok|FAIL|---|panic|WARNING: DATA RACE)' | head -3 | tr '\n' ' ')
rm -f $W/$place
# checks against the patched tree (scratch copy, not /repo)
git apply /tmp/seedpatch.$$
caught=""
mkdir -p $(dirname $W)/v && cp /verif/known-findings.txt $(dirname $W)/v/
res=$($BIN -sweep -repo $W -verif $(dirname $W)/v 2>&1)
caught=$(echo "$res" | awk '/^  violated:/ { sub(/^  violated: /, ""); if (n < 3) acc = acc (acc == "" ? "" : ";") $0; n++ } /^=== / { if (acc != "") printf " %s[%s]", $2, acc; acc = ""; n = 0 }')
echo "$res" | grep -q '^=== C20 ' || caught="$caught SWEEP-INCOMPLETE"
mkdir -p $DST
cp /tmp/seedpatch.$$ $DST/patch.diff; rm -f /tmp/seedpatch.$$
cp $SRC/demo_test.go $DST/demo_test.go
python3 - "$P" "$M" "$SRC" "$DST" "$base" "$with" "$without" "$caught" "$place" "$(git -C /repo rev-parse --short HEAD)" <<'PY'
import json,sys
P,M,SRC,DST,base,withp,without,caught,place,head=sys.argv[1:11]
import os
TAG=os.environ.get("SEED_TAG","")
src=json.load(open(SRC+'/meta.json'))
meta={
 "property":P, "mutant":TAG+M, "origin":"independent sub-agent given only the property text and its own scratch worktree",
 "summary":src.get("summary"), "breaks":src.get("breaks"), "needs":src.get("needs"), "files":src.get("files"),
 "repo_head_confirmed_at":head,
 "confirmed":{
   "applies_and_builds":True,
   "baseline_with_patch":base,
   "demo_place":place,
   "demo_with_patch":withp.strip(),
   "demo_without_patch":without.strip(),
 },
 "caught_by":[c for c in caught.split()],
 "ran":"scripts/confirm_seeded.sh %s %s (scratch worktree of /repo HEAD under /tmp: git apply, go build, scripts/baseline.sh, demo with and without the patch, bin/mqttcheck -property <all 20> -repo <scratch>)"%(P,M),
}
json.dump(meta,open(DST+'/meta.json','w'),indent=1)
ok = ('131/131' in base) and ('FAIL' in withp or 'DATA RACE' in withp or 'panic' in withp) and withp.strip()!='' and without.strip().startswith('ok')
print("%s-%s: base=[%s] with=[%s] without=[%s] caught=%s %s"%(P,M,base,withp.strip()[:60],without.strip()[:30],caught.strip()[:200] or 'NONE', 'CONFIRMED' if ok else 'NOT-CONFIRMED'))
PY
